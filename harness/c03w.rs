// C03 (writer side) — the creator's order on values agrees with the byte order the reader uses.
// Injected as a child module of `crate::creator::directory_pack`.
#![allow(dead_code, unused_imports, unused_variables)]

use super::value_store::verif_c02vs::resolved_handle;
use super::{Array, ArrayS, EntryTrait, FullEntryTrait, Value};
use crate::bases::*;
use crate::verif_common::*;
use std::cmp::Ordering;

// @h c03_writer_order | creator Value::partial_cmp (Array / ArrayS<0..2> arms); Array::{cmp,cmp_array_s}; ArrayS::{cmp,cmp_array}; ValueHandle::get | two byte strings (lengths 0..3), the column's inline length f in 0..2, their two value ids constrained only by what the value stores guarantee: ids are monotone in the byte order of the stored tails, equal tails share an id, and two different tails share an id only if one of them is empty (plain store offsets) | the writer's order == the byte order of the whole strings | 3 bytes
// @h c03_writer_int_order | creator Value::partial_cmp integer arms | two unsigned / two signed values | == numeric order | 64 bit
// @h c03_compare_chain | FullEntryTrait::compare | two entries with two sort keys | lexicographic combination of the per-key orders; records that fully equal keys compare Greater (observation, see DESIGN.md) | 2 keys

fn lex(a: &[u8], b: &[u8]) -> Ordering {
    let mut i = 0;
    while i < a.len() && i < b.len() {
        if a[i] != b[i] {
            return if a[i] < b[i] { Ordering::Less } else { Ordering::Greater };
        }
        i += 1;
    }
    if a.len() < b.len() { Ordering::Less } else if a.len() > b.len() { Ordering::Greater } else { Ordering::Equal }
}

fn mk(s: &[u8], f: usize, id: u64) -> Value {
    // what ValueTransformer builds: inline part = the first min(f, len) bytes
    let plen = if s.len() < f { s.len() } else { f };
    match plen {
        0 => Value::Array0(Box::new(ArrayS::<0> { data: [], value_id: resolved_handle(id), size: s.len() })),
        1 => Value::Array1(Box::new(ArrayS::<1> { data: [s[0]], value_id: resolved_handle(id), size: s.len() })),
        _ => Value::Array2(Box::new(ArrayS::<2> { data: [s[0], s[1]], value_id: resolved_handle(id), size: s.len() })),
    }
}

vharness! {
    #[kani::unwind(6)]
    fn c03_writer_order() {
        let a: [u8; 3] = kani::any();
        let b: [u8; 3] = kani::any();
        let la: usize = kani::any();
        let lb: usize = kani::any();
        kani::assume(la <= 3 && lb <= 3);
        let f: usize = kani::any();
        kani::assume(f <= 2);
        let pa = if la < f { la } else { f };
        let pb = if lb < f { lb } else { f };
        let ida: u64 = kani::any();
        let idb: u64 = kani::any();
        // the value stores' guarantee on ids (C02: c02_vs_*; the sort itself is rayon, outside)
        let t = lex(&a[pa..la], &b[pb..lb]);
        match t {
            Ordering::Equal => kani::assume(ida == idb),
            Ordering::Less => kani::assume(ida < idb || (ida == idb && la == pa)),
            Ordering::Greater => kani::assume(ida > idb || (ida == idb && lb == pb)),
        }
        let va = mk(&a[..la], f, ida);
        let vb = mk(&b[..lb], f, idb);
        let expect = lex(&a[..la], &b[..lb]);
        match va.partial_cmp(&vb) {
            Some(o) => assert!(o == expect, "VERIF: writer order on arrays differs from the byte order the reader uses"),
            None => assert!(false, "VERIF: two array values are not comparable"),
        }
        kani::cover!(la == 3 && lb == 3 && f == 2 && expect == Ordering::Less, "same length, inline part 2");
        kani::cover!(pa != pb, "one value shorter than the inline part");
        kani::cover!(f == 0 && expect == Ordering::Greater, "no inline part");
        std::mem::forget(va);
        std::mem::forget(vb);
    }
}

vharness! {
    #[kani::unwind(6)]
    fn c03_writer_order_long() {
        // inline parts longer than 2 bytes use Value::Array (boxed slice)
        let a: [u8; 4] = kani::any();
        let b: [u8; 4] = kani::any();
        let ida: u64 = kani::any();
        let idb: u64 = kani::any();
        match a[3].cmp(&b[3]) {
            Ordering::Equal => kani::assume(ida == idb),
            Ordering::Less => kani::assume(ida < idb),
            Ordering::Greater => kani::assume(ida > idb),
        }
        let va = Value::Array(Box::new(Array { size: 4, data: Box::new([a[0], a[1], a[2]]), value_id: resolved_handle(ida) }));
        let vb = Value::Array(Box::new(Array { size: 4, data: Box::new([b[0], b[1], b[2]]), value_id: resolved_handle(idb) }));
        match va.partial_cmp(&vb) {
            Some(o) => assert!(o == lex(&a, &b), "VERIF: writer order on arrays differs from the byte order the reader uses"),
            None => assert!(false, "VERIF: two array values are not comparable"),
        }
        std::mem::forget(va);
        std::mem::forget(vb);
    }
}

vharness! {
    #[kani::unwind(4)]
    fn c03_writer_int_order() {
        let a: u64 = kani::any();
        let b: u64 = kani::any();
        assert!(Value::Unsigned(a).partial_cmp(&Value::Unsigned(b)) == Some(a.cmp(&b)), "VERIF: writer order on unsigned integers");
        let c: i64 = kani::any();
        let d: i64 = kani::any();
        assert!(Value::Signed(c).partial_cmp(&Value::Signed(d)) == Some(c.cmp(&d)), "VERIF: writer order on signed integers");
        assert!(Value::Signed(c).partial_cmp(&Value::Unsigned(b)).is_none());
    }
}

type PN = &'static str;
type VN = &'static str;
struct Two {
    k1: Value,
    k2: Value,
}
impl EntryTrait<PN, VN> for Two {
    fn variant_name(&self) -> Option<MayRef<VN>> { None }
    fn value<'a>(&'a self, name: &PN) -> MayRef<'a, Value> {
        if name.as_bytes()[0] == b'a' { MayRef::Borrowed(&self.k1) } else { MayRef::Borrowed(&self.k2) }
    }
    fn value_count(&self) -> PropertyCount { 2u8.into() }
    fn set_idx(&mut self, _idx: EntryIdx) {}
    fn get_idx(&self) -> Bound<EntryIdx> { Vow::new(EntryIdx::from(0)).bind() }
}
impl FullEntryTrait<PN, VN> for Two {}

vharness! {
    #[kani::unwind(6)]
    fn c03_compare_chain() {
        let (a1, a2, b1, b2): (u64, i64, u64, i64) = (kani::any(), kani::any(), kani::any(), kani::any());
        let x = Two { k1: Value::Unsigned(a1), k2: Value::Signed(a2) };
        let y = Two { k1: Value::Unsigned(b1), k2: Value::Signed(b2) };
        let keys: [PN; 2] = ["a", "b"];
        let o = x.compare(&&keys, &y);
        let expect = match a1.cmp(&b1) { Ordering::Equal => a2.cmp(&b2), o => o };
        if expect != Ordering::Equal {
            assert!(o == expect, "VERIF: sort keys are not combined lexicographically");
        } else {
            // observation: fully equal keys compare Greater (a store with duplicate sort keys
            // cannot be sorted); not part of C03's statement
            assert!(o == Ordering::Greater);
        }
        kani::cover!(a1 == b1 && a2 < b2, "decided by the second key");
    }
}
