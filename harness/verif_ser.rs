// Declared inside `crate::bases::write::private` (sees the private fields of `Serializer`).
// S-close: `Serializer::close` without the CRC computation. The block checksum becomes four zero
// bytes; every harness that uses it pairs it with the accepting CRC oracle on the reader side.
// The CRC algorithm, its placement by the writer and its verification by the reader are C05's
// subject (c05_crc_*), which runs the real `close`.
#![allow(dead_code)]
use super::Serializer;
use crate::bases::BlockCheck;

pub(crate) fn stub_close(ser: Serializer) -> (Vec<u8>, Option<[u8; 4]>) {
    match ser.check {
        BlockCheck::None => (ser.buf.into_inner(), None),
        BlockCheck::Crc32 => (ser.buf.into_inner(), Some([0u8; 4])),
    }
}

/// Symbolic mode only: give the serializer's buffer a length of `n` bytes without writing them
/// (the bytes are never read by the code under test; used where only the *length* of a block
/// matters and `n` is symbolic or large).
pub(crate) fn fake_fill(ser: &mut Serializer, n: usize, cap: usize) {
    let v = ser.buf.get_mut();
    let mut nv: Vec<u8> = Vec::with_capacity(cap);
    unsafe { nv.set_len(n) };
    let old = std::mem::replace(v, nv);
    std::mem::forget(old);
}
