// C02 (reader side) — value extraction per property kind, layout property decoding, value stores,
// index window. Injected as a child module of `crate::reader::directory_pack`.
#![allow(dead_code, unused_imports, unused_variables)]

use super::builder::{
    AnyProperty, ArrayProperty, BuilderTrait, ContentProperty, IntProperty, PropertyBuilderTrait,
    SignedProperty, VariantIdProperty,
};
use super::index::IndexHeader;
use super::layout;
use super::private::ValueStorageTrait;
use super::raw_layout::{DeportedInfo, PropertyKind, RawProperty};
use super::{EntryStore, RangeTrait, RawValue, ValueStore, ValueStoreTrait};
use crate::bases::*;
use crate::reader::builder::inner::FromLayoutProperty;
use crate::reader::ByteSlice;
use crate::verif_common::*;
use std::borrow::Cow;
use std::sync::Arc;

// @h c02_int_read | IntProperty / SignedProperty / AnyProperty: FromLayoutProperty::from_property + PropertyBuilderTrait::create; RandomParser for ByteSlice (read_u8..u64, read_i8..i64, read_usized, read_isized); RawValue::{as_unsigned,as_signed} | 12 entry bytes, entry position in its store (>= 1), property offset in the entry, width 1..8, signedness | value == little endian (sign extended) decode at entry + offset by an independent reference; AnyProperty yields the RawValue variant of the width; a default is returned without reading | 12 bytes
// @h c02_content_read | ContentProperty::{from_property,create} | entry bytes, offset, pack id width 1..2, content id width 1..4, default pack id or not | (pack id, content id) == reference decode | 12 bytes
// @h c02_array_read | ArrayProperty::{from_property,create}; BaseArray::parse; Array::new | entry bytes, length width 1..3, fixed length 0..3, key width 1..4 | size, inline bytes, inline length = min(size, fixed), value id == reference decode | 12 bytes; mock value store
// @h c02_array_resolve | Array::{new,cmp,size} (ArrayIter over inline part then stored part) with a real plain value store (ValueStore parsed from reference bytes) | array of length L split at fixed length f between the entry and the store, (L, f) in {(0,0),(1,2),(5,2)} quick, +{(2,2),(3,0),(5,1)} thorough (case split), value id = symbolic offset in the store | the array as the reader sees it (inline part ++ stored part) == the original array | L <= 5; resolve_to_vec itself (SmallVec) is outside
// @h c02_variant_read | VariantIdProperty::create | entry bytes, offset | == the byte at the offset | 12 bytes
// @h c02_layout_prop_reader | RawProperty::parse; PString::parse; BaseArray::parse | reference encoding of one property definition per kind (case split on the key byte's kind nibble and widths) with symbolic defaults / store index / fixed length | kind, widths, defaults, entry size and name decoded == what was encoded; bytes consumed == bytes encoded | one property, name 1 byte
// @h c02_value_store_reader | Reader::parse_data_block::<ValueStore>; ValueStoreBuilder::parse; ValueStore::finalize; PlainValueStore::get_data; IndexedValueStore::get_data | store data (6 symbolic bytes) + reference tail (plain, or indexed with 3 values of symbolic sizes), placed at a non zero position; value id, requested size | indexed: value i == data[off[i]..off[i+1]] (ids >= count: not decided, see DESIGN.md); plain: (offset, size) == data[offset..offset+size] | 6 data bytes, 3 values; O-crc accepts
// @h c02_window | RangeTrait::get_entry for Index and EntryRange; PlainStore::get_entry_reader; Index/EntryRange conversions | window offset and count (u32), requested id, entry size, store entry count | id < count => the builder is asked for exactly offset + id, else None without asking; entry reader i == bytes [i*size, (i+1)*size) of the store | u32
// @h c02_index_reader | IndexHeader::parse | reference encoding of an index header | fields decoded == encoded | name 2 bytes

#[derive(Debug)]
struct MockStore {
    data: [u8; 8],
}
impl ValueStoreTrait for MockStore {
    fn get_data(&self, id: ValueIdx, size: Option<ASize>) -> Result<&[u8]> {
        let o = id.into_u64() as usize;
        let s = match size {
            Some(s) => s.into_usize(),
            None => 0,
        };
        if o + s > 8 {
            return Err(format_error!("out of mock store"));
        }
        Ok(&self.data[o..o + s])
    }
}
struct MockStorage(Arc<MockStore>);
impl ValueStorageTrait for MockStorage {
    type ValueStore = MockStore;
    fn get_value_store(&self, _id: ValueStoreIdx) -> Result<Arc<MockStore>> {
        Ok(Arc::clone(&self.0))
    }
}
fn storage() -> MockStorage {
    MockStorage(Arc::new(MockStore { data: [kani::any(), kani::any(), kani::any(), kani::any(), kani::any(), kani::any(), kani::any(), kani::any()] }))
}

const E: usize = 12;

/// An entry of E symbolic bytes placed at `start >= 1` of its source.
fn entry() -> (Reader, [u8; 16], usize) {
    let mut buf = [0u8; 16];
    fill_any(&mut buf);
    let start: usize = kani::any();
    kani::assume(start >= 1 && start <= 4);
    (Reader::from(buf), buf, start)
}

fn any_width(lo: usize, hi: usize) -> usize {
    let w: usize = kani::any();
    kani::assume(w >= lo && w <= hi);
    w
}

fn int_read(signed: bool) {
    let (reader, data, start) = entry();
    let slice = reader.get_byte_slice(Offset::new(start as u64), Size::new(E as u64));
    let w = any_width(1, 8);
    let off: usize = kani::any();
    kani::assume(off <= E && off + w <= E);
    let st = storage();
    let abs = start + off;
    if signed {
        let p = layout::Property::new(off, PropertyKind::SignedInt { int_size: byte_size(w), default: None });
        let expect = ref_le_int(&data[abs..], w);
        match SignedProperty::from_property(&p, &st) {
            Ok(Some(b)) => match b.create(&slice) {
                Ok(v) => assert!(v == expect, "VERIF: signed property read differs from the reference decode"),
                Err(e) => { forget(e); assert!(false, "VERIF: signed property read failed"); }
            },
            Ok(None) => assert!(false, "VERIF: signed layout property not accepted"),
            Err(e) => { forget(e); assert!(false); }
        }
        match IntProperty::from_property(&p, &st) {
            Ok(None) => {}
            _ => assert!(false, "VERIF: signed layout property accepted as unsigned"),
        }
    } else {
        let p = layout::Property::new(off, PropertyKind::UnsignedInt { int_size: byte_size(w), default: None });
        let expect = ref_le_uint(&data[abs..], w);
        match IntProperty::from_property(&p, &st) {
            Ok(Some(b)) => match b.create(&slice) {
                Ok(v) => assert!(v == expect, "VERIF: unsigned property read differs from the reference decode"),
                Err(e) => { forget(e); assert!(false, "VERIF: unsigned property read failed"); }
            },
            Ok(None) => assert!(false, "VERIF: unsigned layout property not accepted"),
            Err(e) => { forget(e); assert!(false); }
        }
        match SignedProperty::from_property(&p, &st) {
            Ok(None) => {}
            _ => assert!(false, "VERIF: unsigned layout property accepted as signed"),
        }
    }
    kani::cover!(w == 3 && off > 0, "3 byte at an offset");
    kani::cover!(w == 8, "8 byte");
    kani::cover!(w == 5, "5 byte");
}

fn any_int_read(signed: bool) {
    let (reader, data, start) = entry();
    let slice = reader.get_byte_slice(Offset::new(start as u64), Size::new(E as u64));
    let w = any_width(1, 8);
    let off: usize = kani::any();
    kani::assume(off <= E && off + w <= E);
    let st = storage();
    let abs = start + off;
    let kind = if signed {
        PropertyKind::SignedInt { int_size: byte_size(w), default: None }
    } else {
        PropertyKind::UnsignedInt { int_size: byte_size(w), default: None }
    };
    let p = layout::Property::new(off, kind);
    match AnyProperty::from_property(&p, &st) {
        Ok(Some(b)) => match b.create(&slice) {
            Ok(rv) => {
                let ok = if signed {
                    assert!(rv.as_signed() == ref_le_int(&data[abs..], w), "VERIF: raw value differs from the reference decode");
                    match (&rv, w) {
                        (RawValue::I8(_), 1) | (RawValue::I16(_), 2) | (RawValue::I32(_), 3) | (RawValue::I32(_), 4) => true,
                        (RawValue::I64(_), x) => x >= 5,
                        _ => false,
                    }
                } else {
                    assert!(rv.as_unsigned() == ref_le_uint(&data[abs..], w), "VERIF: raw value differs from the reference decode");
                    match (&rv, w) {
                        (RawValue::U8(_), 1) | (RawValue::U16(_), 2) | (RawValue::U32(_), 3) | (RawValue::U32(_), 4) => true,
                        (RawValue::U64(_), x) => x >= 5,
                        _ => false,
                    }
                };
                assert!(ok, "VERIF: raw value variant does not match the width");
                std::mem::forget(rv);
                std::mem::forget(b);
            }
            Err(e) => { forget(e); assert!(false, "VERIF: any property read failed"); }
        },
        _ => assert!(false, "VERIF: any property not built"),
    }
    std::mem::forget(st);
    kani::cover!(w == 3, "3 byte");
    kani::cover!(w == 6, "6 byte");
}

fn default_int_read() {
    let (reader, data, start) = entry();
    let slice = reader.get_byte_slice(Offset::new(start as u64), Size::new(E as u64));
    let w = any_width(1, 8);
    let off: usize = kani::any();
    kani::assume(off <= E);
    let st = storage();
    let d: i64 = kani::any();
    let p = layout::Property::new(off, PropertyKind::SignedInt { int_size: byte_size(w), default: Some(d) });
    match SignedProperty::from_property(&p, &st) {
        Ok(Some(b)) => match b.create(&slice) {
            Ok(v) => assert!(v == d, "VERIF: default not returned"),
            Err(e) => { forget(e); assert!(false); }
        },
        _ => assert!(false),
    }
    let p = layout::Property::new(off, PropertyKind::UnsignedInt { int_size: byte_size(w), default: Some(d as u64) });
    match IntProperty::from_property(&p, &st) {
        Ok(Some(b)) => match b.create(&slice) {
            Ok(v) => assert!(v == d as u64, "VERIF: default not returned"),
            Err(e) => { forget(e); assert!(false); }
        },
        _ => assert!(false),
    }
    kani::cover!(d < 0 && w == 1, "negative default");
}

vharness! {
    #[kani::unwind(18)]
    fn c02_int_read_unsigned() { int_read(false) }
}
vharness! {
    #[kani::unwind(18)]
    fn c02_int_read_signed() { int_read(true) }
}
vharness! {
    #[kani::unwind(18)]
    fn c02_int_read_any_unsigned() { any_int_read(false) }
}
vharness! {
    #[kani::unwind(18)]
    fn c02_int_read_any_signed() { any_int_read(true) }
}
vharness! {
    #[kani::unwind(18)]
    fn c02_int_read_default() { default_int_read() }
}

vharness! {
    #[kani::unwind(18)]
    fn c02_content_read() {
        let (reader, data, start) = entry();
        let slice = reader.get_byte_slice(Offset::new(start as u64), Size::new(E as u64));
        let wp = any_width(1, 2);
        let wc = any_width(1, 4);
        let off: usize = kani::any();
        kani::assume(off <= E && off + wp + wc <= E);
        let st = storage();
        let abs = start + off;
        let with_default: bool = kani::any();
        let dpack: u16 = kani::any();
        let p = layout::Property::new(off, PropertyKind::ContentAddress {
            pack_id_size: byte_size(wp), content_id_size: byte_size(wc),
            default_pack_id: if with_default { Some(PackId::from(dpack)) } else { None } });
        let (epack, econtent) = if with_default {
            (dpack as u64, ref_le_uint(&data[abs..], wc))
        } else {
            (ref_le_uint(&data[abs..], wp), ref_le_uint(&data[abs + wp..], wc))
        };
        match ContentProperty::from_property(&p, &st) {
            Ok(Some(b)) => match b.create(&slice) {
                Ok(ca) => {
                    assert!(ca.pack_id.into_u64() == epack, "VERIF: pack id differs from the reference decode");
                    assert!(ca.content_id.into_u64() == econtent, "VERIF: content id differs from the reference decode");
                }
                Err(e) => { forget(e); assert!(false, "VERIF: content property read failed"); }
            },
            _ => assert!(false, "VERIF: content property not built"),
        }
        kani::cover!(wp == 2 && wc == 3 && !with_default, "2+3");
        kani::cover!(with_default && wc == 4, "default pack");
    }
}

vharness! {
    #[kani::unwind(18)]
    fn c02_array_read() {
        let (reader, data, start) = entry();
        let slice = reader.get_byte_slice(Offset::new(start as u64), Size::new(E as u64));
        let wl = any_width(1, 3);
        let fixed = any_width(0, 3);
        let wk = any_width(1, 4);
        let off: usize = kani::any();
        kani::assume(off <= E && off + wl + fixed + wk <= E);
        let st = storage();
        let abs = start + off;
        let p = layout::Property::new(off, PropertyKind::Array {
            array_len_size: Some(byte_size(wl)), fixed_array_len: fixed as u8,
            deported_info: Some(DeportedInfo { id_size: byte_size(wk), value_store_idx: ValueStoreIdx::from(0u8) }),
            default: None });
        let elen = ref_le_uint(&data[abs..], wl);
        let eid = ref_le_uint(&data[abs + wl + fixed..], wk);
        match ArrayProperty::from_property(&p, &st) {
            Ok(Some(b)) => match b.create(&slice) {
                Ok(a) => {
                    assert!(a.size == Some(ASize::new(elen as usize)), "VERIF: array length differs from the reference decode");
                    let blen = if (elen as usize) < fixed { elen as usize } else { fixed };
                    assert!(a.base_len as usize == blen, "VERIF: inline length must be min(size, fixed length)");
                    let mut i = 0;
                    while i < fixed {
                        assert!(a.base.data[i] == data[abs + wl + i], "VERIF: inline bytes differ");
                        i += 1;
                    }
                    match &a.extend {
                        Some(e) => assert!(e.value_id.into_u64() == eid, "VERIF: value id differs from the reference decode"),
                        None => assert!(false, "VERIF: deported part lost"),
                    }
                    std::mem::forget(a);
                }
                Err(e) => { forget(e); assert!(false, "VERIF: array property read failed"); }
            },
            _ => assert!(false, "VERIF: array property not built"),
        }
        kani::cover!(wl == 3 && fixed == 3 && wk == 4, "widest");
        kani::cover!(fixed == 0, "no inline part");
    }
}

vharness! {
    #[kani::unwind(18)]
    fn c02_variant_read() {
        let (reader, data, start) = entry();
        let slice = reader.get_byte_slice(Offset::new(start as u64), Size::new(E as u64));
        let off: usize = kani::any();
        kani::assume(off < E);
        match VariantIdProperty::new(Offset::new(off as u64)).create(&slice) {
            Ok(v) => assert!(v.into_u8() == data[start + off], "VERIF: variant id differs from the byte stored"),
            Err(e) => { forget(e); assert!(false, "VERIF: variant id read failed"); }
        }
        kani::cover!(off == 11, "last byte");
    }
}

// ---- layout property definitions ----------------------------------------------------------------
fn parse_prop(buf: &[u8], len: usize) -> Option<RawProperty> {
    let mut parser = SliceParser::new(Cow::Borrowed(&buf[..len]), Offset::zero());
    match RawProperty::parse(&mut parser) {
        Ok(p) => {
            match parser.read_u8() {
                Ok(_) => assert!(false, "VERIF: property definition not consumed exactly"),
                Err(e) => forget(e),
            }
            Some(p)
        }
        Err(e) => { forget(e); None }
    }
}

fn name_is_p(p: &RawProperty) -> bool {
    p.name.as_str().len() == 1 && p.name.as_str().as_bytes()[0] == b'p'
}

fn prop_int(w: usize, signed: bool, with_default: bool) {
    let mut b = [0u8; 16];
    b[0] = (if signed { 0x30 } else { 0x20 }) + (w as u8 - 1) + if with_default { 8 } else { 0 };
    let mut pos = 1;
    let d: u64 = kani::any();
    kani::assume(w >= 8 || d < (1u64 << (8 * w)));
    if with_default { put_le(&mut b, pos, d, w); pos += w; }
    b[pos] = 1; b[pos + 1] = b'p';
    match parse_prop(&b, pos + 2) {
        Some(p) => {
            assert!(name_is_p(&p), "VERIF: property name");
            assert!(p.size == if with_default { 0 } else { w }, "VERIF: property entry size");
            match p.kind {
                PropertyKind::UnsignedInt { int_size, default } => {
                    assert!(!signed && int_size as usize == w, "VERIF: int property width");
                    assert!(default == if with_default { Some(d) } else { None }, "VERIF: int property default");
                }
                PropertyKind::SignedInt { int_size, default } => {
                    assert!(signed && int_size as usize == w, "VERIF: int property width");
                    assert!(default == if with_default { Some(ref_le_int(&d.to_le_bytes(), w)) } else { None }, "VERIF: signed property default");
                }
                _ => assert!(false, "VERIF: property kind"),
            }
            std::mem::forget(p);
        }
        None => assert!(false, "VERIF: well formed property definition rejected"),
    }
}

macro_rules! prop_int_group {
    ($name:ident, $signed:expr, $w0:expr, $w1:expr, $w2:expr, $w3:expr) => {
        vharness! {
            #[kani::unwind(18)]
            #[kani::stub(std::str::from_utf8, crate::verif_common::stub_from_utf8)]
            fn $name() {
                // concrete key byte in each call
                let k: u8 = kani::any();
                kani::assume(k < 8);
                match k {
                    0 => prop_int($w0, $signed, false), 1 => prop_int($w0, $signed, true),
                    2 => prop_int($w1, $signed, false), 3 => prop_int($w1, $signed, true),
                    4 => prop_int($w2, $signed, false), 5 => prop_int($w2, $signed, true),
                    6 => prop_int($w3, $signed, false), _ => prop_int($w3, $signed, true),
                }
                kani::cover!(k == 7, "last width with default");
                kani::cover!(k == 0, "first width without default");
            }
        }
    };
}
prop_int_group!(c02_layout_prop_reader_uint_lo, false, 1, 2, 3, 4);
prop_int_group!(c02_layout_prop_reader_uint_hi, false, 5, 6, 7, 8);
prop_int_group!(c02_layout_prop_reader_sint_lo, true, 1, 2, 3, 4);
prop_int_group!(c02_layout_prop_reader_sint_hi, true, 5, 6, 7, 8);

fn prop_content(wp: usize, wc: usize, with_default: bool) {
    let mut b = [0u8; 16];
    b[0] = 0x10 + (wc as u8 - 1) + if wp == 2 { 4 } else { 0 } + if with_default { 8 } else { 0 };
    let mut pos = 1;
    let d: u16 = kani::any();
    kani::assume(wp == 2 || d < 256);
    if with_default { put_le(&mut b, pos, d as u64, wp); pos += wp; }
    b[pos] = 1; b[pos + 1] = b'p';
    match parse_prop(&b, pos + 2) {
        Some(p) => {
            assert!(name_is_p(&p), "VERIF: property name");
            assert!(p.size == wc + if with_default { 0 } else { wp }, "VERIF: property entry size");
            match p.kind {
                PropertyKind::ContentAddress { pack_id_size, content_id_size, default_pack_id } => {
                    assert!(pack_id_size as usize == wp && content_id_size as usize == wc, "VERIF: content address widths");
                    assert!(default_pack_id == if with_default { Some(PackId::from(d)) } else { None }, "VERIF: default pack id");
                }
                _ => assert!(false, "VERIF: property kind"),
            }
            std::mem::forget(p);
        }
        None => assert!(false, "VERIF: well formed property definition rejected"),
    }
}

macro_rules! prop_content_group {
    ($name:ident, $d:expr) => {
        vharness! {
            #[kani::unwind(18)]
            #[kani::stub(std::str::from_utf8, crate::verif_common::stub_from_utf8)]
            fn $name() {
                let k: u8 = kani::any();
                kani::assume(k < 8);
                match k {
                    0 => prop_content(1, 1, $d), 1 => prop_content(1, 2, $d), 2 => prop_content(1, 3, $d), 3 => prop_content(1, 4, $d),
                    4 => prop_content(2, 1, $d), 5 => prop_content(2, 2, $d), 6 => prop_content(2, 3, $d), _ => prop_content(2, 4, $d),
                }
                kani::cover!(k == 7, "widest");
            }
        }
    };
}
prop_content_group!(c02_layout_prop_reader_content_nodef, false);
prop_content_group!(c02_layout_prop_reader_content_def, true);

fn prop_array(wl: usize, wk: usize, fixed: u8) {
    let sidx: u8 = kani::any();
    let mut b = [0u8; 16];
    b[0] = 0x50 + wl as u8;
    b[1] = ((wk as u8) << 5) + fixed;
    let mut pos = 2;
    if wk != 0 { b[pos] = sidx; pos += 1; }
    b[pos] = 1; b[pos + 1] = b'p';
    match parse_prop(&b, pos + 2) {
        Some(p) => {
            assert!(name_is_p(&p), "VERIF: property name");
            assert!(p.size == wl + fixed as usize + wk, "VERIF: property entry size");
            match p.kind {
                PropertyKind::Array { array_len_size, fixed_array_len, deported_info, default } => {
                    assert!(array_len_size.map(|s| s as usize).unwrap_or(0) == wl, "VERIF: array length width");
                    assert!(fixed_array_len == fixed, "VERIF: fixed array length");
                    match deported_info {
                        Some(di) => assert!(wk != 0 && di.id_size as usize == wk && di.value_store_idx.into_u8() == sidx, "VERIF: deported info"),
                        None => assert!(wk == 0, "VERIF: deported info lost"),
                    }
                    assert!(default.is_none());
                }
                _ => assert!(false, "VERIF: property kind"),
            }
            std::mem::forget(p);
        }
        None => assert!(false, "VERIF: well formed property definition rejected"),
    }
}

vharness! {
    #[kani::unwind(18)]
    #[kani::stub(std::str::from_utf8, crate::verif_common::stub_from_utf8)]
    fn c02_layout_prop_reader_array_a() {
        let k: u8 = kani::any();
        kani::assume(k < 4);
        match k { 0 => prop_array(1, 1, 0), 1 => prop_array(2, 2, 1), 2 => prop_array(3, 7, 31), _ => prop_array(0, 3, 0) }
        kani::cover!(k == 2, "widest");
        kani::cover!(k == 3, "indirect");
    }
}
vharness! {
    #[kani::unwind(18)]
    #[kani::stub(std::str::from_utf8, crate::verif_common::stub_from_utf8)]
    fn c02_layout_prop_reader_array_b() {
        let k: u8 = kani::any();
        kani::assume(k < 4);
        match k { 0 => prop_array(1, 0, 5), 1 => prop_array(3, 4, 16), 2 => prop_array(0, 1, 0), _ => prop_array(2, 5, 2) }
        kani::cover!(k == 0, "no store");
    }
}

fn prop_padding(ps: u8) {
    let mut b = [0u8; 16];
    b[0] = ps - 1;
    match parse_prop(&b, 1) {
        Some(p) => { assert!(p.kind == PropertyKind::Padding && p.size == ps as usize, "VERIF: padding"); std::mem::forget(p); }
        None => assert!(false, "VERIF: padding rejected"),
    }
}

vharness! {
    #[kani::unwind(18)]
    #[kani::stub(std::str::from_utf8, crate::verif_common::stub_from_utf8)]
    fn c02_layout_prop_reader_misc() {
        let ps: u8 = kani::any();
        kani::assume(ps >= 1 && ps <= 16);
        match ps { 1 => prop_padding(1), 2 => prop_padding(2), 7 => prop_padding(7), 8 => prop_padding(8), 15 => prop_padding(15), 16 => prop_padding(16), _ => prop_padding(9) }
        let b = [0x80u8, 1, b'p'];
        match parse_prop(&b, 3) {
            Some(p) => { assert!(p.is_variant_id() && p.size == 1 && name_is_p(&p), "VERIF: variant id"); std::mem::forget(p); }
            None => assert!(false, "VERIF: variant id rejected"),
        }
        kani::cover!(ps == 16, "largest padding");
    }
}

// ---- value stores ---------------------------------------------------------------------------------
const VD: usize = 6;

fn vs_plain(p: usize) {
    let mut buf = [0u8; 40];
    fill_any(&mut buf[..p + VD]);
    // data block = data + 4 checksum bytes, then the tail [0, size u64] + 4 checksum bytes
    let tail_pos = p + VD + 4;
    buf[tail_pos] = 0;
    put_le(&mut buf, tail_pos + 1, VD as u64, 8);
    native_set_crc(&mut buf, p, VD, true);
    native_set_crc(&mut buf, tail_pos, 9, true);
    let data = buf;
    let reader = Reader::from(buf);
    match reader.parse_data_block::<ValueStore>(SizedOffset::new(ASize::new(9), Offset::new(tail_pos as u64))) {
        Ok(store) => {
            let off: usize = kani::any();
            let size: usize = kani::any();
            kani::assume(off <= VD && size <= VD - off);
            match store.get_data(ValueIdx::from(off as u64), Some(ASize::new(size))) {
                Ok(s) => {
                    assert!(s.len() == size, "VERIF: plain store value length");
                    let mut i = 0;
                    while i < size {
                        assert!(s[i] == data[p + off + i], "VERIF: plain store value bytes differ");
                        i += 1;
                    }
                }
                Err(e) => { forget(e); assert!(false, "VERIF: plain store read failed"); }
            }
            kani::cover!(off == 2 && size == 4, "tail of the store");
            std::mem::forget(store);
        }
        Err(e) => { forget(e); assert!(false, "VERIF: reader rejects a well formed plain value store"); }
    }
}

fn vs_indexed(p: usize) {
    let mut buf = [0u8; 40];
    fill_any(&mut buf[..p + VD]);
    // three values of symbolic sizes
    let o1: u64 = kani::any();
    let o2: u64 = kani::any();
    kani::assume(o1 <= o2 && o2 <= VD as u64);
    let tail_pos = p + VD + 4;
    buf[tail_pos] = 1;
    put_le(&mut buf, tail_pos + 1, 3, 8);
    buf[tail_pos + 9] = 1; // offset width
    buf[tail_pos + 10] = VD as u8;
    buf[tail_pos + 11] = o1 as u8;
    buf[tail_pos + 12] = o2 as u8;
    native_set_crc(&mut buf, p, VD, true);
    native_set_crc(&mut buf, tail_pos, 13, true);
    let data = buf;
    let reader = Reader::from(buf);
    match reader.parse_data_block::<ValueStore>(SizedOffset::new(ASize::new(13), Offset::new(tail_pos as u64))) {
        Ok(store) => {
            let id: u64 = kani::any();
            // ids past the value count (an error path) are not decided here: see DESIGN.md
            kani::assume(id < 3);
            let offs = [0u64, o1, o2, VD as u64];
            match store.get_data(ValueIdx::from(id), None) {
                Ok(s) => {
                    let b = offs[id as usize] as usize;
                    let e = offs[id as usize + 1] as usize;
                    assert!(s.len() == e - b, "VERIF: indexed store value length");
                    let mut i = 0;
                    while i < s.len() {
                        assert!(s[i] == data[p + b + i], "VERIF: indexed store value bytes differ");
                        i += 1;
                    }
                }
                Err(e) => { forget(e); assert!(false, "VERIF: indexed store read failed"); }
            }
            // sized read (array with an inline prefix): `size` bytes from the start of the value
            {
                let b = offs[id as usize] as usize;
                let size: usize = kani::any();
                kani::assume(size <= offs[id as usize + 1] as usize - b);
                match store.get_data(ValueIdx::from(id), Some(ASize::new(size))) {
                    Ok(s) => {
                        assert!(s.len() == size);
                        let mut i = 0;
                        while i < size {
                            assert!(s[i] == data[p + b + i], "VERIF: indexed store sized read differs");
                            i += 1;
                        }
                    }
                    Err(e) => { forget(e); assert!(false, "VERIF: indexed store sized read failed"); }
                }
            }
            kani::cover!(id == 2 && o2 < VD as u64, "last value, non empty");
            kani::cover!(id == 1 && o1 == o2, "empty value");
            std::mem::forget(store);
        }
        Err(e) => { forget(e); assert!(false, "VERIF: reader rejects a well formed indexed value store"); }
    }
}

vharness! {
    #[kani::unwind(16)]
    #[kani::stub(crate::bases::assert_slice_crc, crate::verif_common::crc_oracle)]
    fn c02_value_store_reader_plain() {
        if kani::any() { vs_plain(1) } else { vs_plain(3) }
    }
}
vharness! {
    #[kani::unwind(16)]
    #[kani::stub(crate::bases::assert_slice_crc, crate::verif_common::crc_oracle)]
    fn c02_value_store_reader_indexed() {
        if kani::any() { vs_indexed(1) } else { vs_indexed(2) }
    }
}

// ---- array resolution through a real plain store -------------------------------------------------
fn array_resolve(l: usize, f: usize) {
    // the original array: L bytes; the first min(L, f) are inline, the rest in the store at `id`
    let orig: [u8; 5] = [kani::any(), kani::any(), kani::any(), kani::any(), kani::any()];
    let inline = if l < f { l } else { f };
    let p = 2usize;
    let id: usize = kani::any();
    kani::assume(id <= VD && id + (l - inline) <= VD);
    let mut buf = [0u8; 40];
    fill_any(&mut buf[..p + VD]);
    let mut i = inline;
    while i < l {
        buf[p + id + (i - inline)] = orig[i];
        i += 1;
    }
    let tail_pos = p + VD + 4;
    buf[tail_pos] = 0;
    put_le(&mut buf, tail_pos + 1, VD as u64, 8);
    native_set_crc(&mut buf, p, VD, true);
    native_set_crc(&mut buf, tail_pos, 9, true);
    let reader = Reader::from(buf);
    let store = match reader.parse_data_block::<ValueStore>(SizedOffset::new(ASize::new(9), Offset::new(tail_pos as u64))) {
        Ok(s) => Arc::new(s),
        Err(e) => { forget(e); assert!(false, "VERIF: store rejected"); return; }
    };
    let mut base = BaseArray::default();
    i = 0;
    while i < inline { base.data[i] = orig[i]; i += 1; }
    let a = super::raw_value::Array::new(
        Some(ASize::new(l)), base, f as u8,
        Some(super::raw_value::Extend::new(store.clone() as Arc<dyn ValueStoreTrait>, ValueIdx::from(id as u64))));
    // `resolve_to_vec` goes through SmallVec, which CBMC does not get through (> 10 min for one
    // concrete case): the concatenation "inline part ++ stored part" is observed through the
    // reader's own byte-wise comparison instead (same two sources, no SmallVec).
    match a.cmp(&orig[..l]) {
        Ok(o) => assert!(o == std::cmp::Ordering::Equal, "VERIF: resolved array differs from the original"),
        Err(e) => { forget(e); assert!(false, "VERIF: array resolution failed"); }
    }
    assert!(a.size() == Some(l), "VERIF: resolved array length");
    std::mem::forget(a);
    std::mem::forget(store);
}

vharness! {
    #[kani::unwind(16)]
    #[kani::stub(crate::bases::assert_slice_crc, crate::verif_common::crc_oracle)]
    fn c02_array_resolve() {
        let k: u8 = kani::any();
        kani::assume(k < 3);
        match k { 0 => array_resolve(0, 0), 1 => array_resolve(1, 2), _ => array_resolve(5, 2) }
        kani::cover!(k == 2, "split 2 + 3");
        kani::cover!(k == 1, "shorter than the inline part");
        kani::cover!(k == 0, "empty array");
    }
}
vharness! {
    #[kani::unwind(16)]
    #[kani::stub(crate::bases::assert_slice_crc, crate::verif_common::crc_oracle)]
    fn c02t_array_resolve_more() {
        let k: u8 = kani::any();
        kani::assume(k < 3);
        match k { 0 => array_resolve(2, 2), 1 => array_resolve(3, 0), _ => array_resolve(5, 1) }
        kani::cover!(k == 1, "no inline part");
    }
}

// ---- index window ---------------------------------------------------------------------------------
struct AskBuilder {
    asked: std::cell::Cell<Option<u32>>,
}
impl BuilderTrait for AskBuilder {
    type Entry = u32;
    type Error = Error;
    fn create_entry(&self, idx: EntryIdx) -> Result<Option<u32>> {
        self.asked.set(Some(idx.into_u32()));
        Ok(Some(idx.into_u32()))
    }
}

vharness! {
    #[kani::unwind(4)]
    fn c02_window() {
        let offset: u32 = kani::any();
        let count: u32 = kani::any();
        kani::assume(offset as u64 + count as u64 <= u32::MAX as u64);
        let id: u32 = kani::any();
        let hdr = IndexHeader {
            store_id: EntryStoreIdx::from(0), entry_count: EntryCount::from(count), entry_offset: EntryIdx::from(offset),
            free_data: IndexFreeData::from([0u8; 4]), index_property: 0, name: SmallString::new() };
        let index = super::Index::new(hdr);
        assert!(index.size().into_u32() == count && index.is_empty() == (count == 0));
        let b = AskBuilder { asked: std::cell::Cell::new(None) };
        match index.get_entry(&b, EntryIdx::from(id)) {
            Ok(Some(e)) => {
                assert!(id < count, "VERIF: index answers past its window");
                assert!(e == offset + id && b.asked.get() == Some(offset + id), "VERIF: index window maps id to offset + id");
            }
            Ok(None) => {
                assert!(id >= count, "VERIF: index refuses an id inside its window");
                assert!(b.asked.get().is_none(), "VERIF: store consulted for an id outside the window");
            }
            Err(e) => { forget(e); assert!(false); }
        }
        let range: EntryRange = (&index).into();
        assert!(range.offset().into_u32() == offset && range.count().into_u32() == count, "VERIF: range of an index");
        let b2 = AskBuilder { asked: std::cell::Cell::new(None) };
        match range.get_entry(&b2, EntryIdx::from(id)) {
            Ok(Some(e)) => assert!(id < count && e == offset + id, "VERIF: range window"),
            Ok(None) => assert!(id >= count && b2.asked.get().is_none(), "VERIF: range window"),
            Err(e) => { forget(e); assert!(false); }
        }
        kani::cover!(count > 0 && id == count - 1 && offset > 0, "last entry of a shifted window");
        kani::cover!(id == count, "first id past the window");
        std::mem::forget(index);
    }
}

vharness! {
    #[kani::unwind(24)]
    #[kani::stub(std::str::from_utf8, crate::verif_common::stub_from_utf8)]
    fn c02_index_reader() {
        let store_id: u32 = kani::any();
        let count: u32 = kani::any();
        let offset: u32 = kani::any();
        let key: u8 = kani::any();
        let mut b = [0u8; 24];
        put_le(&mut b, 0, store_id as u64, 4);
        put_le(&mut b, 4, count as u64, 4);
        put_le(&mut b, 8, offset as u64, 4);
        fill_any(&mut b[12..16]);
        b[16] = key;
        b[17] = 2; b[18] = b'a'; b[19] = b'b';
        let mut parser = SliceParser::new(Cow::Borrowed(&b[..20]), Offset::zero());
        match IndexHeader::parse(&mut parser) {
            Ok(h) => {
                assert!(h.store_id.into_u32() == store_id, "VERIF: index store id");
                assert!(h.entry_count.into_u32() == count, "VERIF: index entry count");
                assert!(h.entry_offset.into_u32() == offset, "VERIF: index entry offset");
                assert!(h.index_property == key, "VERIF: index property");
                assert!(h.free_data.as_ref()[0] == b[12] && h.free_data.as_ref()[3] == b[15], "VERIF: index free data");
                assert!(h.name.as_str().len() == 2 && h.name.as_str().as_bytes()[1] == b'b', "VERIF: index name");
                std::mem::forget(h);
            }
            Err(e) => { forget(e); assert!(false, "VERIF: well formed index header rejected"); }
        }
    }
}
