// C05 — damaged metadata is reported: CRC algorithm, CRC placement by the writer, and the
// verification sites of the reader. Injected at the crate root.
#![allow(dead_code, unused_imports, unused_variables)]

use crate::bases::*;
use crate::common::PackLocator;
use crate::verif_common::*;
use std::borrow::Cow;

// @h c05_crc_alg | bases::assert_slice_crc; CRC (crc crate, table driven, CUSTOM_ALG) | N data bytes + 4 checksum bytes, all symbolic | accepts iff the trailing big endian word == bitwise CRC-32C (poly 0x1EDC6F41, init 0xFFFFFFFF, no reflection, no xorout) computed by an independent reference | N = 1, 2 (quick); 3, 4 (thorough)
// @h c05_crc_writer | Serializer::{new,write_data,close}; OutStream::write_serializer on a Cursor | N symbolic data bytes | the 4 bytes the writer appends == the reference CRC big endian; the stream receives data then checksum; the returned length excludes the checksum; a block it wrote is accepted by assert_slice_crc | N = 1, 2
// @h c05_crc_flip | bases::assert_slice_crc twice | a block of N+4 bytes, a position, a non zero mask | a block and the same block with one byte altered are never both accepted | N = 1, 2 (thorough 3)
// @h c05_sites | Reader::{parse_block_at,parse_block_in,cut_check,parse_data_block}; ArrayReader::new_memory_from_reader; ValueStore::finalize; <[u8;N] as Source>::{get_slice,cut}; CRC oracle | position and size of the block, oracle verdict | the result is Ok only if the oracle was asked about exactly [offset, offset+size+4) of the source and accepted; a rejection surfaces as Err(Corrupted) and nothing is parsed | 64 byte identity buffer (byte i == i identifies the range asked about)

// @h c05_site | (see c05_sites) each entry point in its own harness: c05_site_parse_block, c05_site_cut_check, c05_site_array_reader, c05_site_value_store | position and size of the block, oracle verdict | Ok only if exactly [offset, offset+size+4) was verified and accepted; rejection => Err(Corrupted); parsed bytes are the verified bytes | 64 byte identity buffer
fn crc_alg<const N: usize, const M: usize>() {
    let mut buf = [0u8; M];
    fill_any(&mut buf);
    let expect = ref_crc(&buf[..N]);
    let stored = u32::from_be_bytes([buf[N], buf[N + 1], buf[N + 2], buf[N + 3]]);
    match assert_slice_crc(&buf) {
        Ok(()) => assert!(stored == expect, "VERIF: a block whose checksum is not the CRC-32C of its data was accepted"),
        Err(e) => {
            let corrupted = matches!(*e, ErrorKind::Corrupted(_));
            forget(e);
            assert!(stored != expect, "VERIF: a block with a valid CRC-32C was rejected");
            assert!(corrupted, "VERIF: checksum mismatch must be reported as Corrupted");
        }
    }
    kani::cover!(stored == expect, "valid block");
    kani::cover!(stored != expect, "invalid block");
}

vharness! {
    #[kani::unwind(12)]
    fn c05_crc_alg_1() { crc_alg::<1, 5>() }
}
vharness! {
    #[kani::unwind(12)]
    fn c05_crc_alg_2() { crc_alg::<2, 6>() }
}
vharness! {
    #[kani::unwind(12)]
    fn c05t_crc_alg_3() { crc_alg::<3, 7>() }
}
vharness! {
    #[kani::unwind(12)]
    fn c05t_crc_alg_4() { crc_alg::<4, 8>() }
}

fn crc_writer<const N: usize>() {
    let mut data = [0u8; N];
    fill_any(&mut data);
    let mut ser = Serializer::new(BlockCheck::Crc32);
    match ser.write_data(&data) { Ok(n) => assert!(n == N), Err(e) => { forget(e); assert!(false); } }
    let mut cur = std::io::Cursor::new(Vec::<u8>::new());
    match cur.write_serializer(ser) {
        Ok(n) => assert!(n == N, "VERIF: write_serializer must return the data length, checksum excluded"),
        Err(e) => { forget(e); assert!(false, "VERIF: write_serializer failed"); }
    }
    let out = cur.into_inner();
    assert!(out.len() == N + 4, "VERIF: block = data + 4 checksum bytes");
    let mut i = 0;
    while i < N { assert!(out[i] == data[i], "VERIF: data bytes altered by the writer"); i += 1; }
    let expect = ref_crc(&data).to_be_bytes();
    assert!(out[N] == expect[0] && out[N + 1] == expect[1] && out[N + 2] == expect[2] && out[N + 3] == expect[3],
        "VERIF: checksum written is not the big endian CRC-32C of the data");
    std::mem::forget(out);
}

vharness! {
    #[kani::unwind(12)]
    fn c05_crc_writer_1() { crc_writer::<1>() }
}
vharness! {
    #[kani::unwind(12)]
    fn c05_crc_writer_2() { crc_writer::<2>() }
}
vharness! {
    #[kani::unwind(12)]
    fn c05_crc_writer_unchecked() {
        // BlockCheck::None: no checksum appended
        let mut ser = Serializer::new(BlockCheck::None);
        let d: [u8; 2] = [kani::any(), kani::any()];
        match ser.write_data(&d) { Ok(_) => {}, Err(e) => forget(e) }
        let (buf, crc) = ser.close();
        assert!(crc.is_none() && buf.len() == 2);
        std::mem::forget(buf);
        assert!(BlockCheck::Crc32.size() == 4 && BlockCheck::None.size() == 0);
    }
}

fn crc_flip<const N: usize, const M: usize>() {
    let mut a = [0u8; M];
    fill_any(&mut a);
    let pos: usize = kani::any();
    let mask: u8 = kani::any();
    kani::assume(pos < M && mask != 0);
    let mut b = a;
    b[pos] ^= mask;
    let ra = match assert_slice_crc(&a) { Ok(()) => true, Err(e) => { forget(e); false } };
    let rb = match assert_slice_crc(&b) { Ok(()) => true, Err(e) => { forget(e); false } };
    assert!(!(ra && rb), "VERIF: a single byte alteration went undetected by the block checksum");
    kani::cover!(ra && pos >= N, "checksum byte altered");
    kani::cover!(ra && pos < N, "data byte altered");
}

vharness! {
    #[kani::unwind(12)]
    fn c05_crc_flip_1() { crc_flip::<1, 5>() }
}
vharness! {
    #[kani::unwind(12)]
    fn c05_crc_flip_2() { crc_flip::<2, 6>() }
}
vharness! {
    #[kani::unwind(12)]
    fn c05t_crc_flip_3() { crc_flip::<3, 7>() }
}

// ---- verification sites ------------------------------------------------------------------------
const IDENT: [u8; 64] = {
    let mut b = [0u8; 64];
    let mut i = 0;
    while i < 64 {
        b[i] = i as u8;
        i += 1;
    }
    b
};
fn ident() -> [u8; 64] {
    IDENT
}

fn asked(k: usize) -> (u8, usize, bool) {
    unsafe { (CRC_LOG[k].0, CRC_LOG[k].1, CRC_VERDICT[k]) }
}

macro_rules! oharness {
    ($(#[$m:meta])* fn $name:ident() $body:block) => {
        vharness! {
            #[kani::stub(crate::bases::assert_slice_crc, crate::verif_common::crc_oracle)]
            $(#[$m])*
            fn $name() $body
        }
    };
}

oharness! {
    #[kani::unwind(12)]
    fn c05_site_parse_block() {
        let reader = Reader::from(ident());
        let off: usize = kani::any();
        kani::assume(off <= 64 - 36);
        crc_reset([2, 2, 2, 2]);
        let which: bool = kani::any();
        let r = if which {
            reader.parse_block_at::<PackLocator>(Offset::new(off as u64))
        } else {
            reader.parse_block_in::<PackLocator>(Offset::new(off as u64), ASize::new(32))
        };
        assert!(unsafe { CRC_CALLS } == 1, "VERIF: a block was parsed without exactly one checksum verification");
        let (first, len, verdict) = asked(0);
        assert!(first as usize == off && len == 36, "VERIF: checksum verified over another range than [offset, offset+size+4)");
        match r {
            Ok(l) => {
                assert!(verdict, "VERIF: block parsed although its checksum was rejected");
                assert!(l.uuid.as_bytes()[0] as usize == off && l.uuid.as_bytes()[15] as usize == off + 15, "VERIF: parsed bytes are not the verified bytes");
                assert!(l.pack_size.into_u64() == ref_le_uint(&ident()[off + 16..], 8), "VERIF: parsed bytes are not the verified bytes");
            }
            Err(e) => {
                let corrupted = matches!(*e, ErrorKind::Corrupted(_));
                forget(e);
                assert!(!verdict, "VERIF: block rejected although its checksum was accepted");
                assert!(corrupted, "VERIF: a checksum failure must surface as Corrupted");
            }
        }
        kani::cover!(off == 28, "last position");
        kani::cover!(!which && off == 3, "parse_block_in");
    }
}

oharness! {
    #[kani::unwind(12)]
    fn c05_site_cut_check() {
        let reader = Reader::from(ident());
        let off: usize = kani::any();
        let size: usize = kani::any();
        kani::assume(off <= 60 && size <= 60 - off);
        crc_reset([2, 2, 2, 2]);
        let checked: bool = kani::any();
        let r = reader.cut_check(Offset::new(off as u64), Size::new(size as u64), if checked { BlockCheck::Crc32 } else { BlockCheck::None });
        if checked {
            assert!(unsafe { CRC_CALLS } == 1, "VERIF: cut_check(Crc32) did not verify exactly once");
            let (first, len, verdict) = asked(0);
            assert!(first as usize == off && len == size + 4, "VERIF: checksum verified over another range than [offset, offset+size+4)");
            match r {
                Ok(cr) => {
                    assert!(verdict, "VERIF: region handed out although its checksum was rejected");
                    match cr.get_slice(Offset::zero(), ASize::new(size)) {
                        Ok(s) => assert!(s.len() == size && (size == 0 || s[0] as usize == off), "VERIF: region handed out is not the verified one"),
                        Err(e) => { forget(e); assert!(false); }
                    }
                    let r2: Reader = cr.into();
                    assert!(r2.size().into_u64() == size as u64 && r2.global_offset().into_u64() == off as u64);
                }
                Err(e) => { forget(e); assert!(!verdict, "VERIF: region refused although its checksum was accepted"); }
            }
        } else {
            assert!(unsafe { CRC_CALLS } == 0);
            match r { Ok(_) => {}, Err(e) => { forget(e); assert!(false, "VERIF: unchecked cut failed"); } }
        }
        kani::cover!(checked && size == 0, "empty checked region");
        kani::cover!(checked && off + size == 60, "region ending at the last checksum");
    }
}

oharness! {
    #[kani::unwind(12)]
    fn c05_site_array_reader() {
        let reader = Reader::from(ident());
        let at: usize = kani::any();
        let count: u32 = kani::any();
        kani::assume(count <= 7 && at <= 60 && (count as usize) * 8 <= 60 - at);
        crc_reset([2, 2, 2, 2]);
        let r = ArrayReader::<SizedOffset, u32>::new_memory_from_reader(&reader, Offset::new(at as u64), Count::from(count));
        assert!(unsafe { CRC_CALLS } == 1, "VERIF: table loaded without exactly one checksum verification");
        let (first, len, verdict) = asked(0);
        assert!(first as usize == at && len == count as usize * 8 + 4, "VERIF: table checksum verified over another range");
        match r {
            Ok(arr) => {
                assert!(verdict, "VERIF: table loaded although its checksum was rejected");
                if count > 0 {
                    let i: u32 = kani::any();
                    kani::assume(i < count);
                    match arr.index(Idx::new(i)) {
                        Ok(so) => {
                            let w = ref_le_uint(&ident()[at + 8 * i as usize..], 8);
                            assert!(so.offset.into_u64() == w >> 16 && so.size.into_u64() == w & 0xFFFF, "VERIF: table element is not read from the verified range");
                        }
                        Err(e) => { forget(e); assert!(false, "VERIF: table element read failed"); }
                    }
                }
            }
            Err(e) => { forget(e); assert!(!verdict, "VERIF: table refused although its checksum was accepted"); }
        }
        kani::cover!(count == 7 && at == 0, "7 elements");
        kani::cover!(count == 0, "empty table");
    }
}

oharness! {
    #[kani::unwind(12)]
    fn c05_site_value_store() {
        use crate::reader::ValueStoreForVerif as ValueStore;
        // plain value store: data [p, p+6) + 4 crc, tail [0, size u64] at p+10, + 4 crc
        let mut buf = ident();
        let p: usize = 5;
        let tail_pos = p + 6 + 4;
        buf[tail_pos] = 0;
        put_le(&mut buf, tail_pos + 1, 6, 8);
        let reader = Reader::from(buf);
        crc_reset([2, 2, 2, 2]);
        let r = reader.parse_data_block::<ValueStore>(SizedOffset::new(ASize::new(9), Offset::new(tail_pos as u64)));
        let calls = unsafe { CRC_CALLS };
        assert!(calls >= 1, "VERIF: value store tail parsed without checksum verification");
        let (f0, l0, v0) = asked(0);
        assert!(f0 == 0 && l0 == 13, "VERIF: value store tail checksum verified over another range");
        match r {
            Ok(s) => {
                assert!(calls == 2 && v0, "VERIF: value store opened without verifying tail and data");
                let (f1, l1, v1) = asked(1);
                assert!(f1 as usize == p && l1 == 6 + 4 && v1, "VERIF: value store data checksum verified over another range or rejected");
                std::mem::forget(s);
            }
            Err(e) => {
                forget(e);
                let (_, _, v1) = asked(1);
                assert!(!v0 || (calls == 2 && !v1), "VERIF: value store refused although both checksums were accepted");
            }
        }
        kani::cover!(calls == 2, "data block verified");
    }
}
