// C02 — creator value stores: id width, tail and data layout.
// Injected as a child module of `crate::creator::directory_pack::value_store`
// (sees BaseValueStore / ValueHandle private fields; `finalize` itself is rayon: outside).
#![allow(dead_code, unused_imports, unused_variables)]

use super::{
    BaseValueStore, IndexedValueStore, PlainValueStore, StoreHandle, ValueHandle, ValueStore,
};
use crate::bases::*;
use crate::creator::private::WritableTell;
use crate::verif_common::*;
use std::cell::Cell;

// @h c02_vs_key_width | PlainValueStore::key_size; IndexedValueStore::key_size; needed_bytes | store size (plain) resp. value count (indexed) symbolic, a value id constrained only by the store's invariant (offset <= size, resp. id < count) | the id fits the key width the store announces | plain: 64 bit size; indexed: count <= 70000
// @h c02_vs_indexed_tail | IndexedValueStore::{serialize_tail,write_data}; Serializer; OutStream::write_serializer | 3 values of lengths (2,0,3) with symbolic bytes in a directly constructed finalized state, any of the 6 sort permutations (case split) | tail bytes == reference layout [1, count u64, width, data size, cumulative offsets of the first n-1 values in sorted order]; data == values concatenated in sorted order (+4 CRC bytes) | 3 values; state built by struct literal (finalize = rayon sort, outside); Serializer::close without CRC
// @h c02_vs_plain_tail | PlainValueStore::{serialize_tail,write_data,size} | 3 values, the middle one a duplicate of the first (deduplicated state as finalize leaves it) | tail == [0, size u64]; data == distinct values in sorted order; every value is found at its recorded offset | 3 values; literal state

/// A value handle already resolved to `id` (what `ValueHandle::get` returns after finalisation).
pub(crate) fn resolved_handle(id: u64) -> ValueHandle {
    ValueHandle {
        store: Cell::new(None),
        idx: Cell::new(id),
    }
}

fn base(size: u64) -> BaseValueStore {
    BaseValueStore {
        idx: Some(ValueStoreIdx::from(0u8)),
        data: Vec::new(),
        sorted_indirect: Vec::new(),
        size: Size::new(size),
        finalized: true,
    }
}

/// A finalized plain store of the given total size (only `key_size`/`get_idx` are meaningful).
pub(crate) fn plain_store_of_size(size: u64, idx: u8) -> StoreHandle {
    let mut b = base(size);
    b.idx = Some(ValueStoreIdx::from(idx));
    ValueStore::Plain(PlainValueStore(b)).into()
}

/// A finalized indexed store with `count` values (only `key_size`/`get_idx` are meaningful).
pub(crate) fn indexed_store_of_count(count: usize, cap: usize, idx: u8) -> StoreHandle {
    let mut b = base(0);
    b.idx = Some(ValueStoreIdx::from(idx));
    let mut v: Vec<usize> = Vec::new();
    if is_symbolic() {
        // only the length is read by key_size; no element is ever touched and the store is
        // forgotten, never dropped
        unsafe { v.set_len(count) };
    } else {
        v.resize(count, 0);
    }
    b.sorted_indirect = v;
    ValueStore::Indexed(IndexedValueStore(b)).into()
}

vharness! {
    #[kani::unwind(10)]
    fn c02_vs_key_width() {
        if kani::any() {
            let size: u64 = kani::any();
            let id: u64 = kani::any();
            kani::assume(id <= size);
            let store = plain_store_of_size(size, 0);
            let w = store.key_size() as usize;
            assert!(w >= 8 || id < (1u64 << (8 * w)), "VERIF: plain store value id does not fit its key width");
            kani::cover!(w == 3, "3 byte keys");
            std::mem::forget(store);
        } else {
            let count: usize = kani::any();
            kani::assume(count <= 70000);
            let id: u64 = kani::any();
            kani::assume(id < count as u64);
            let store = indexed_store_of_count(count, 70000, 0);
            let w = store.key_size() as usize;
            assert!(w >= 8 || id < (1u64 << (8 * w)), "VERIF: indexed store value id does not fit its key width");
            kani::cover!(w == 3, "3 byte keys");
            kani::cover!(w == 1 && id == 254, "last one byte id");
            std::mem::forget(store);
        }
    }
}

fn boxed(b: &[u8]) -> Box<[u8]> {
    b.to_vec().into_boxed_slice()
}

fn le(b: &[u8]) -> u64 {
    let mut v = 0u64;
    let mut i = 0;
    while i < b.len() {
        v |= (b[i] as u64) << (8 * i);
        i += 1;
    }
    v
}

/// data part (write_data, through a real Cursor) and tail part (serialize_tail)
fn store_writes(store: &mut dyn WritableTell, exp_data: &[W], exp_tail: &[W]) {
    log_reset();
    let mut cur = std::io::Cursor::new(Vec::<u8>::new());
    match store.write_data(&mut cur) {
        Ok(()) => {
            let data = cur.into_inner();
            if is_symbolic() {
                expect_writes(exp_data, &data);
            } else {
                // natively the stream holds the data followed by its 4 CRC bytes
                assert!(data.len() >= 4, "VERIF: value store data block has no checksum");
                expect_writes(exp_data, &data[..data.len() - 4]);
            }
            std::mem::forget(data);
        }
        Err(e) => { forget(e); assert!(false, "VERIF: value store write_data failed"); }
    }
    log_reset();
    let mut ser = Serializer::new(BlockCheck::None);
    match store.serialize_tail(&mut ser) {
        Ok(()) => {
            let (tail, _) = ser.close();
            expect_writes(exp_tail, &tail);
            std::mem::forget(tail);
        }
        Err(e) => { forget(e); assert!(false, "VERIF: value store serialize_tail failed"); }
    }
}

fn indexed_tail_body(perm: [usize; 3]) {
    // three distinct values: a (2 bytes), b (empty), c (3 bytes)
    let a: [u8; 2] = [kani::any(), kani::any()];
    let c: [u8; 3] = [kani::any(), kani::any(), kani::any()];
    let vals: [&[u8]; 3] = [&a, &[], &c];
    let lens = [2u64, 0, 3];
    let mut b = base(5);
    b.data = vec![(boxed(&a), 0u64), (boxed(&[]), 0), (boxed(&c), 0)];
    // invariant left by finalize: data[sorted_indirect[i]].1 == i
    b.sorted_indirect = vec![perm[0], perm[1], perm[2]];
    b.data[perm[0]].1 = 0;
    b.data[perm[1]].1 = 1;
    b.data[perm[2]].1 = 2;
    let mut store = IndexedValueStore(b);
    let v = |k: usize| wd(le(vals[perm[k]]), vals[perm[k]].len());
    store_writes(
        &mut store,
        &[v(0), v(1), v(2)],
        &[wu(1, 1), wu(3, 8), wu(1, 1), wu(5, 1), wu(lens[perm[0]], 1), wu(lens[perm[0]] + lens[perm[1]], 1)],
    );
    std::mem::forget(store);
}

wharness! {
    #[kani::unwind(16)]
    #[kani::stub(crate::bases::Serializer::close, crate::bases::verif_ser::stub_close)]
    fn c02_vs_indexed_tail() {
        let p: u8 = kani::any();
        kani::assume(p < 6);
        match p {
            0 => indexed_tail_body([0, 1, 2]),
            1 => indexed_tail_body([0, 2, 1]),
            2 => indexed_tail_body([1, 0, 2]),
            3 => indexed_tail_body([1, 2, 0]),
            4 => indexed_tail_body([2, 0, 1]),
            _ => indexed_tail_body([2, 1, 0]),
        }
        kani::cover!(p == 3, "permutation 1,2,0");
    }
}

wharness! {
    #[kani::unwind(16)]
    #[kani::stub(crate::bases::Serializer::close, crate::bases::verif_ser::stub_close)]
    fn c02_vs_plain_tail() {
        // values: x (2 bytes), a duplicate of x, y (3 bytes); sorted order either x,x,y or y,x,x
        let x: [u8; 2] = [kani::any(), kani::any()];
        let y: [u8; 3] = [kani::any(), kani::any(), kani::any()];
        let x_first: bool = kani::any();
        let mut b = base(5);
        let (ox, oy) = if x_first { (0u64, 2u64) } else { (3u64, 0u64) };
        b.data = vec![(boxed(&x), ox), (boxed(&x), ox), (boxed(&y), oy)];
        // state left by PlainValueStore::finalize: a duplicate is redirected to the first key
        b.sorted_indirect = if x_first { vec![0, 0, 2] } else { vec![2, 0, 0] };
        let mut store = PlainValueStore(b);
        assert!(store.size().into_u64() == 5);
        // duplicates are written once; every value starts at its recorded offset
        if x_first {
            store_writes(&mut store, &[wd(le(&x), 2), wd(le(&y), 3)], &[wu(0, 1), wu(5, 8)]);
        } else {
            store_writes(&mut store, &[wd(le(&y), 3), wd(le(&x), 2)], &[wu(0, 1), wu(5, 8)]);
        }
        kani::cover!(x_first, "x sorted first");
        kani::cover!(!x_first, "y sorted first");
        std::mem::forget(store);
    }
}

/// S-fin: `StoreHandle::finalize` without the rayon sort, for stores holding at most one value
/// (where the sorted order is the insertion order): records the store index, assigns ids in
/// order and marks the store finalized, exactly what the real finalize leaves for such a store.
pub(crate) fn stub_store_finalize(h: &StoreHandle, idx: ValueStoreIdx) {
    let mut guard = h.0.write().unwrap();
    let b: &mut BaseValueStore = match &mut *guard {
        ValueStore::Plain(s) => &mut s.0,
        ValueStore::Indexed(s) => &mut s.0,
    };
    assert!(b.data.len() <= 1, "VERIF: S-fin is only valid for stores of at most one value");
    b.idx = Some(idx);
    if b.data.len() == 1 {
        b.data[0].1 = 0;
    }
    b.finalized = true;
}

/// `StoreHandle::add_value` without the rayon-based duplicate search of the indexed store
/// (removes the static edge to rayon; valid for the first value added to a store).
pub(crate) fn stub_store_add_value(h: &StoreHandle, data: impl Into<Box<[u8]>>) -> ValueHandle {
    let idx = {
        let mut guard = h.0.write().unwrap();
        match &mut *guard {
            ValueStore::Plain(s) => s.0.add_value(data),
            ValueStore::Indexed(s) => {
                let data = data.into();
                assert!(s.0.data.is_empty(), "VERIF: add_value stub is only valid for the first value");
                s.0.size += data.len();
                s.0.add_value(data)
            }
        }
    };
    ValueHandle::new(&h.0, idx)
}
