// C04 — DirectoryPack::check hashes exactly [0, check_info_pos). Child of reader::directory_pack.
#![allow(dead_code, unused_imports)]
use super::DirectoryPack;
use crate::bases::*;
use crate::common::{DirectoryPackHeader, PackHeader, PackKind};
use crate::verif_common::*;
use std::sync::RwLock;
use crate::common::Pack;

// @h c04_range_directory | <DirectoryPack as Pack>::check; Reader::{parse_block_in,create_stream}; CheckInfo::{parse,check}; ByteStream::read; PackHeader::check_info_size | the body bytes, check_info_pos in {8, 20} (case split), one optional single byte alteration of the body or of the stored digest | the hash is fed exactly bytes [0, check_info_pos); a pristine pack verifies; an altered one does not | body <= 20 bytes; pack state built by struct literal; O-crc accepts, O-hash stand-in digest

pub(crate) fn mk(reader: Reader, cip: u64) -> DirectoryPack {
    let pack_header = PackHeader {
        magic: PackKind::Directory, app_vendor_id: VendorId::from([0u8; 4]), major_version: 0, minor_version: 2,
        uuid: uuid::Uuid::from_bytes([1u8; 16]), flags: 0, file_size: Size::new(cip + 37 + 64), check_info_pos: Offset::new(cip) };
    let header = DirectoryPackHeader::new(PackFreeData::from([0u8; 24]), (IndexCount::from(0), Offset::zero()), (ValueStoreCount::from(0), Offset::zero()), (EntryStoreCount::from(0), Offset::zero()));
    let a = ArrayReader::new_memory_from_reader(&reader, Offset::new(60), Count::from(0u8)).unwrap();
    let b = ArrayReader::new_memory_from_reader(&reader, Offset::new(60), Count::from(0u32)).unwrap();
    let c = ArrayReader::new_memory_from_reader(&reader, Offset::new(60), Count::from(0u32)).unwrap();
    DirectoryPack { pack_header, header, value_stores_ptrs: a, entry_stores_ptrs: b, index_ptrs: c, reader, check_info: RwLock::new(None) }
}

hharness! {
    #[kani::unwind(40)]
    #[kani::stub(crate::bases::assert_slice_crc, crate::verif_common::crc_oracle)]
    fn c04_range_directory() {
        if kani::any() { check_range(8, mk) } else { check_range(20, mk) }
    }
}

