// C04 / C12 — integrity check: which bytes are hashed, manifest masking, check info.
// Injected as a child module of `crate::common::check` (sees ManifestCheckStream's fields).
#![allow(dead_code, unused_imports, unused_variables)]

use super::{CheckInfo, CheckKind, ManifestCheckStream};
use crate::bases::*;
use crate::common::{PackInfo, PackKind};
use crate::verif_common::*;
use std::io::Read;

// @h c04_mask_step | ManifestCheckStream::read | arbitrary stream state (current offset, pack table offset, pack count <= 3), how many bytes the source hands out per read (chunking), requested size <= 8 | one inductive step: every byte handed out at absolute position p is 0 iff p lies in [table + 256k + 38, table + 256(k+1)) for some k < count, and the source's byte otherwise; 1..=requested bytes are returned; the stream position advances by that amount and stays in step with the source | reads <= 8 bytes, count <= 3, offsets < 2^32
// @h c04_mask_setup | ManifestCheckStream::{new,new_from_offset_iter}; reader PackOffsetsIter::{new,next} | check info position, pack count <= 3 | the masked table starts at check_info_pos - 256*count and ends at check_info_pos; the iterator yields count offsets spaced by 256; current offset starts at 0 | count <= 3
// @h c04_check_info | CheckInfo::{new_blake3,check,new_none}; blake3::Hasher::{new,update_reader,finalize} replaced by a tap (O-hash) | a 6 byte stream, one altered position | new_blake3 hashes exactly the bytes of the stream it is given; check() is true iff the digest of the stream equals the stored one; a none check is always true (as specified) | 6 bytes; additive stand-in digest (single byte alterations change it)
// @h c12_pack_info_w | PackInfo::serialize; PString::serialize_string_padded | every field; location of concrete length l in {0,1,16,17,213} (bytes symbolic for l <= 17) | writes == uuid(16) size(8) check info sized offset(8) pack id(2) kind(1) group(1) free data id(2) | then location length, bytes, zero padding to 213: 252 bytes, the location starting at byte 38 (the first masked byte) | l <= 213 (first 32 location bytes compared)
// @h c12_pack_info_r | PackInfo::parse; PString::parse | reference encoding, location length l in {0,1,2,16,17}, kind case split | fields recovered, exactly 252 bytes consumed whatever the location length | l <= 17

/// A source whose byte at position p is 0x80 | (p & 0x7F) (never zero), handing out at most
/// `chunk` bytes per read.
struct Src {
    pos: u64,
    chunk: usize,
}
fn src_byte(p: u64) -> u8 {
    0x80 | (p & 0x7F) as u8
}
impl Read for Src {
    fn read(&mut self, buf: &mut [u8]) -> std::io::Result<usize> {
        let n = if buf.len() < self.chunk { buf.len() } else { self.chunk };
        let mut i = 0;
        while i < n {
            buf[i] = src_byte(self.pos + i as u64);
            i += 1;
        }
        self.pos += n as u64;
        Ok(n)
    }
}

fn masked(p: u64, table: u64, count: u64) -> bool {
    p >= table && p < table + 256 * count && (p - table) % 256 >= 38
}

fn mask_step(canary: bool) {
    let cur: u64 = kani::any();
    let table: u64 = kani::any();
    let count: u16 = kani::any();
    kani::assume(cur < (1u64 << 32) && table < (1u64 << 32) && count <= 3);
    let chunk: usize = kani::any();
    kani::assume(chunk >= 1 && chunk <= 8);
    let mut src = Src { pos: cur, chunk };
    let mut s = ManifestCheckStream::new(&mut src, Offset::new(table), PackCount::from(count));
    assert!(s.current_offset == 0, "VERIF: a fresh check stream starts at 0");
    assert!(s.pack_offset == table && s.start_safe_zone == table + 256 * count as u64, "VERIF: masked table bounds");
    // arbitrary reachable state: the stream and its source advance together
    s.current_offset = cur;
    let want: usize = kani::any();
    kani::assume(want >= 1 && want <= 8);
    let mut buf = [0xEEu8; 8];
    match s.read(&mut buf[..want]) {
        Ok(n) => {
            assert!(n >= 1 && n <= want, "VERIF: check stream read returned nothing or too much");
            assert!(s.current_offset == cur + n as u64, "VERIF: check stream position out of step");
            let mut i = 0;
            while i < n {
                let p = cur + i as u64;
                if masked(p, table, count as u64) {
                    assert!(buf[i] == 0, "VERIF: a rewritable pack-info byte (location / checksum) is part of the global check");
                } else {
                    assert!(buf[i] == src_byte(p), "VERIF: a byte that must be checked is masked or altered by the check stream");
                }
                i += 1;
            }
            drop(s);
            assert!(src.pos == cur + n as u64, "VERIF: check stream consumed source bytes it did not hand out");
        }
        Err(e) => { forget(e); assert!(false, "VERIF: check stream read failed"); }
    }
    kani::cover!(count == 3 && masked(cur, table, 3) && !masked(cur + 7, table, 3), "leaving a masked zone");
    kani::cover!(count > 0 && cur + 2 == table + 38, "entering a masked zone");
    kani::cover!(count == 0, "no packs");
    if canary {
        assert!(false, "CANARY");
    }
}

vharness! {
    #[kani::unwind(10)]
    fn c04_mask_step() { mask_step(false) }
}
vharness! {
    #[kani::unwind(10)]
    fn c04_canary_mask_step() { mask_step(true) }
}

vharness! {
    #[kani::unwind(6)]
    fn c04_mask_setup() {
        let count: u16 = kani::any();
        kani::assume(count <= 3);
        let cip: u64 = kani::any();
        kani::assume(cip >= 256 * count as u64 && cip < (1u64 << 40));
        let mut it = crate::reader::PackOffsetsIter::new(Offset::new(cip), PackCount::from(count));
        let mut k = 0u64;
        while k < count as u64 {
            match it.next() {
                Some(o) => assert!(o.into_u64() == cip - 256 * (count as u64 - k), "VERIF: pack info offsets are not the 256 byte blocks before the check info"),
                None => assert!(false, "VERIF: fewer pack offsets than packs"),
            }
            k += 1;
        }
        assert!(it.next().is_none(), "VERIF: more pack offsets than packs");
        let mut src = Src { pos: 0, chunk: 8 };
        let s = ManifestCheckStream::new_from_offset_iter(&mut src, crate::reader::PackOffsetsIter::new(Offset::new(cip), PackCount::from(count)));
        assert!(s.current_offset == 0, "VERIF: a fresh check stream starts at 0");
        if count > 0 {
            assert!(s.pack_offset == cip - 256 * count as u64 && s.start_safe_zone == cip, "VERIF: masked table is not the pack-info table");
        } else {
            assert!(s.start_safe_zone == s.pack_offset, "VERIF: nothing is masked without packs");
        }
        kani::cover!(count == 3, "three packs");
    }
}

use crate::verif_common::hharness;

hharness! {
    #[kani::unwind(40)]
    fn c04_check_info() {
        let data: [u8; 6] = [kani::any(), kani::any(), kani::any(), kani::any(), kani::any(), kani::any()];
        let mut rd: &[u8] = &data;
        let ci = match CheckInfo::new_blake3(&mut rd) {
            Ok(ci) => ci,
            Err(e) => { forget(e); assert!(false, "VERIF: hashing failed"); return; }
        };
        assert!(unsafe { crate::verif_common::H_LEN } == 6, "VERIF: the check does not cover the whole stream it is given");
        assert!(rd.is_empty(), "VERIF: the stream was not read to its end");
        // the same bytes verify
        let mut rd: &[u8] = &data;
        match ci.check(&mut rd) { Ok(v) => assert!(v, "VERIF: a pristine stream does not verify"), Err(e) => { forget(e); assert!(false); } }
        // a single altered byte does not
        let pos: usize = kani::any();
        let mask: u8 = kani::any();
        kani::assume(pos < 6 && mask != 0);
        let mut alt = data;
        alt[pos] ^= mask;
        let mut rd: &[u8] = &alt;
        match ci.check(&mut rd) { Ok(v) => assert!(!v, "VERIF: an altered stream verifies"), Err(e) => forget(e) }
        // a shorter or longer stream does not
        let mut rd: &[u8] = &data[..5];
        match ci.check(&mut rd) { Ok(v) => assert!(!v, "VERIF: a truncated stream verifies"), Err(e) => forget(e) }
        // "none" verifies anything (as specified)
        let mut rd: &[u8] = &alt;
        match CheckInfo::new_none().check(&mut rd) { Ok(v) => assert!(v), Err(e) => forget(e) }
        kani::cover!(pos == 5, "last byte altered");
    }
}
