// C01 (reader side) — cluster tail parsing, data origin, blob extraction.
// Injected as a child module of `crate::reader::content_pack::cluster` (sees private fields).
#![allow(dead_code, unused_imports, unused_variables)]

use super::{Cluster, ClusterBuilder, ClusterReader};
use crate::bases::*;
use crate::common::CompressionType;
use crate::verif_common::*;
use std::borrow::Cow;
use std::sync::Arc;

// @h c01_tail_reader | ClusterBuilder::parse; ClusterHeader::parse; CompressionType::parse; ByteSize::parse; SliceParser::{read_u8,read_u16,read_usized} | per width W, blob count n, compression byte (case split 0..3, and >= 4): stored size, data size, offsets | parse(reference encoding) returns exactly the encoded compression, stored size, data size and blob offsets [0, off.., data size], consumes the tail exactly; unknown compression byte => Err; uncompressed with stored != data => Err | W in {1,2,3,4,8} x n in {1,2,3} quick; W 5..7, n 6 thorough
// @h c01_get_bytes | Reader::{parse_data_block,parse_block_in,cut_check,cut,get_byte_slice}; ClusterBuilder::parse; Cluster::{finalize,build_plain_reader,get_bytes}; ByteRegion::{size,get_slice}; <[u8;N] as Source>::{get_slice,cut} | uncompressed cluster at position p of the buffer: 8 symbolic data bytes, n blobs with symbolic cumulative offsets, surrounding bytes symbolic, blob index | for every blob i: bytes == data[off[i-1]..off[i]], size agrees; never bytes of the prefix or of the tail | n in {1,2,3}, p in {1,2,3} (4 thorough), data 8 bytes, width 1; O-crc accepts (CRC itself: C05)
// @h c01_raw_origin | Reader::parse_data_block; ClusterBuilder::parse; Cluster::finalize | compressed cluster (kind 1..3): stored size in {0,1,8}, data size symbolic | raw reader == [tail - stored size, tail), data size and kind kept; decoders never called before a read | one blob; decoders stubbed

const D: usize = 8;
const BUF: usize = 40;

fn stub_source(_raw: crate::reader::ByteStream, _s: ASize) -> Result<Arc<dyn Source>> {
    Err(MissingFeatureError {
        name: "verif",
        msg: "decoders are outside the claim",
    }
    .into())
}

fn comp_of(b: u8) -> CompressionType {
    match b {
        0 => CompressionType::None,
        1 => CompressionType::Lz4,
        2 => CompressionType::Lzma,
        _ => CompressionType::Zstd,
    }
}

// -- tail reader ---------------------------------------------------------------------------------
fn tail_reader<const K: usize>(w: usize, canary: bool) {
    let c: u8 = kani::any();
    // concrete discriminant in each call (see DESIGN.md 2: symbolic discriminants reaching an
    // error path defeat constant propagation)
    if c == 0 {
        tail_reader_k::<K>(w, 0, canary)
    } else if c == 1 {
        tail_reader_k::<K>(w, 1, canary)
    } else if c == 2 {
        tail_reader_k::<K>(w, 2, canary)
    } else {
        tail_reader_k::<K>(w, 3, canary)
    }
}

fn sym_tail<const K: usize>(w: usize, comp: u8) -> ([u8; 60], usize, u64, [u64; K]) {
    let offs: [u64; K] = kani::any();
    let mut i = 0;
    while i < K {
        kani::assume(w >= 8 || offs[i] < (1u64 << (8 * w)));
        if i > 0 {
            kani::assume(offs[i - 1] <= offs[i]);
        }
        i += 1;
    }
    let raw: u64 = kani::any();
    kani::assume(w >= 8 || raw < (1u64 << (8 * w)));
    let mut tail = [0u8; 60];
    let len = ref_cluster_tail(&mut tail, comp, w, raw, &offs);
    (tail, len, raw, offs)
}

fn tail_reader_k<const K: usize>(w: usize, comp: u8, canary: bool) {
    let (tail, len, raw, offs) = sym_tail::<K>(w, comp);
    let data_size = offs[K - 1];
    let mut parser = SliceParser::new(Cow::Borrowed(&tail[..len]), Offset::zero());
    match ClusterBuilder::parse(&mut parser) {
        Ok((b, raw_back)) => {
            assert!(comp != 0 || raw == data_size, "VERIF: uncompressed cluster with stored != data size accepted");
            assert!(b.compression == comp_of(comp), "VERIF: compression kind");
            assert!(raw_back.into_u64() == raw, "VERIF: stored size read back differs");
            assert!(b.data_size.into_u64() == data_size, "VERIF: data size read back differs");
            assert!(b.blob_offsets.len() == K + 1, "VERIF: n+1 blob offsets");
            assert!(b.blob_offsets[0].into_u64() == 0, "VERIF: first blob starts at 0");
            let mut i = 1;
            while i <= K {
                assert!(
                    b.blob_offsets[i].into_u64() == offs[i - 1],
                    "VERIF: blob offset read back differs"
                );
                i += 1;
            }
            // the tail was consumed exactly
            match parser.read_u8() {
                Ok(_) => assert!(false, "VERIF: bytes left after the tail"),
                Err(e) => forget(e),
            }
            std::mem::forget(b);
        }
        Err(e) => {
            forget(e);
            assert!(
                comp == 0 && raw != data_size,
                "VERIF: reader rejects a well formed cluster tail"
            );
        }
    }
    kani::cover!(K < 2 || offs[0] < offs[K - 1], "distinct offsets");
    if canary {
        assert!(false, "CANARY");
    }
}

// unknown compression kinds: every byte >= 4 is rejected by the kind parser (symbolic), and a
// tail carrying such a byte is rejected as a whole (two concrete representatives)
fn tail_reader_bad(c: u8) {
    let (tail, len, raw, offs) = sym_tail::<1>(1, c);
    let mut parser = SliceParser::new(Cow::Borrowed(&tail[..len]), Offset::zero());
    match ClusterBuilder::parse(&mut parser) {
        Ok((b, _)) => {
            std::mem::forget(b);
            assert!(false, "VERIF: unknown compression kind accepted");
        }
        Err(e) => forget(e),
    }
}

vharness! {
    #[kani::unwind(10)]
    fn c01_tail_reader_badkind() {
        let c: u8 = kani::any();
        let one = [c];
        let mut parser = SliceParser::new(Cow::Borrowed(&one[..]), Offset::zero());
        match CompressionType::parse(&mut parser) {
            Ok(k) => {
                assert!(c < 4, "VERIF: unknown compression kind accepted");
                assert!(k == comp_of(c), "VERIF: compression kind mapping");
            }
            Err(e) => {
                forget(e);
                assert!(c >= 4, "VERIF: known compression kind rejected");
            }
        }
        kani::cover!(c == 3, "zstd");
        kani::cover!(c == 200, "unknown kind");
    }
}

vharness! {
    #[kani::unwind(10)]
    fn c01_tail_reader_badtail() {
        let k: bool = kani::any();
        if k { tail_reader_bad(4) } else { tail_reader_bad(255) }
        kani::cover!(k, "kind 4");
        kani::cover!(!k, "kind 255");
    }
}

macro_rules! tail_reader_inst {
    ($name:ident, $k:expr, $w:expr, $canary:expr) => {
        vharness! {
            #[kani::unwind(10)]
            fn $name() { tail_reader::<$k>($w, $canary) }
        }
    };
}
tail_reader_inst!(c01_tail_reader_w1_n1, 1, 1, false);
tail_reader_inst!(c01_tail_reader_w1_n3, 3, 1, false);
tail_reader_inst!(c01_tail_reader_w2_n2, 2, 2, false);
tail_reader_inst!(c01_tail_reader_w3_n2, 2, 3, false);
tail_reader_inst!(c01_tail_reader_w4_n2, 2, 4, false);
tail_reader_inst!(c01_tail_reader_w8_n2, 2, 8, false);
tail_reader_inst!(c01t_tail_reader_w5_n3, 3, 5, false);
tail_reader_inst!(c01t_tail_reader_w6_n3, 3, 6, false);
tail_reader_inst!(c01t_tail_reader_w7_n3, 3, 7, false);
tail_reader_inst!(c01t_tail_reader_w2_n6, 6, 2, false);
tail_reader_inst!(c01_canary_tail_reader, 2, 2, true);

// -- blob extraction -----------------------------------------------------------------------------
fn get_bytes_body<const N: usize>(p: usize, canary: bool) {
    // zero initialised buffer + individual symbolic bytes: keeps the tail's structural bytes
    // constant for CBMC (a wholly nondeterministic array does not)
    let mut buf = [0u8; BUF];
    fill_any(&mut buf[..p + D]);
    // cumulative offsets, the last one is the data size
    let mut offs: [u64; N] = kani::any();
    offs[N - 1] = D as u64;
    let mut i = 0;
    while i + 1 < N {
        kani::assume(offs[i] <= offs[i + 1]);
        i += 1;
    }
    let tail_pos = p + D;
    let tail_len = ref_cluster_tail(&mut buf[tail_pos..], 0, 1, D as u64, &offs);
    fill_any(&mut buf[tail_pos + tail_len..tail_pos + tail_len + 6]);
    native_set_crc(&mut buf, tail_pos, tail_len, true);
    let data: [u8; BUF] = buf;
    let reader = Reader::from(buf);
    let so = SizedOffset::new(ASize::new(tail_len), Offset::new(tail_pos as u64));
    let cluster = match reader.parse_data_block::<Cluster>(so) {
        Ok(c) => c,
        Err(e) => {
            forget(e);
            assert!(false, "VERIF: reader rejects a well formed cluster");
            return;
        }
    };
    let idx: u16 = kani::any();
    kani::assume((idx as usize) < N);
    let begin = if idx == 0 { 0 } else { offs[idx as usize - 1] };
    let end = offs[idx as usize];
    match cluster.get_bytes(BlobIdx::from(idx)) {
        Ok(region) => {
            assert!(region.size().into_u64() == end - begin, "VERIF: blob size");
            match region.get_slice(Offset::zero(), (end - begin) as usize) {
                Ok(b) => {
                    assert!(b.len() as u64 == end - begin);
                    let mut j = 0usize;
                    while j < b.len() {
                        assert!(
                            b[j] == data[p + begin as usize + j],
                            "VERIF: blob bytes differ from the bytes stored"
                        );
                        j += 1;
                    }
                }
                Err(e) => {
                    forget(e);
                    assert!(false, "VERIF: cannot read the blob");
                }
            }
        }
        Err(e) => {
            forget(e);
            assert!(false, "VERIF: get_bytes failed");
        }
    }
    kani::cover!(idx as usize == N - 1 && end > begin, "last blob, non empty");
    kani::cover!(N < 2 || (idx == 0 && end == 0), "empty first blob");
    if canary {
        assert!(false, "CANARY");
    }
    std::mem::forget(cluster);
}

macro_rules! get_bytes_inst {
    ($name:ident, $n:expr, $p:expr, $canary:expr) => {
        vharness! {
            #[kani::unwind(15)]
            #[kani::stub(crate::bases::assert_slice_crc, crate::verif_common::crc_oracle)]
            #[kani::stub(super::zstd_source, stub_source)]
            #[kani::stub(super::lz4_source, stub_source)]
            #[kani::stub(super::lzma_source, stub_source)]
            fn $name() { get_bytes_body::<$n>($p, $canary) }
        }
    };
}
get_bytes_inst!(c01_get_bytes_n1_p1, 1, 1, false);
get_bytes_inst!(c01_get_bytes_n2_p3, 2, 3, false);
get_bytes_inst!(c01_get_bytes_n3_p2, 3, 2, false);
get_bytes_inst!(c01t_get_bytes_n3_p4, 3, 4, false);
get_bytes_inst!(c01_canary_get_bytes, 2, 1, true);

fn raw_origin(comp: u8, raw: u64) {
    let mut buf = [0u8; BUF];
    let p: usize = 2;
    fill_any(&mut buf[..p + raw as usize]);
    let data_size: u64 = kani::any();
    kani::assume(data_size <= 200);
    let offs = [data_size];
    let tail_pos = p + raw as usize;
    let tail_len = ref_cluster_tail(&mut buf[tail_pos..], comp, 1, raw, &offs);
    native_set_crc(&mut buf, tail_pos, tail_len, true);
    let reader = Reader::from(buf);
    let so = SizedOffset::new(ASize::new(tail_len), Offset::new(tail_pos as u64));
    match reader.parse_data_block::<Cluster>(so) {
        Ok(c) => {
            assert!(c.compression == comp_of(comp), "VERIF: compression kind");
            assert!(c.data_size.into_u64() == data_size, "VERIF: data size");
            assert!(c.blob_offsets.len() == 2);
            match &*c.reader.read().unwrap() {
                ClusterReader::Raw(r) => {
                    assert!(r.global_offset().into_u64() == p as u64, "VERIF: compressed data origin");
                    assert!(r.size().into_u64() == raw, "VERIF: compressed data size");
                }
                ClusterReader::Plain(_) => assert!(false, "VERIF: compressed cluster opened as plain"),
            }
            std::mem::forget(c);
        }
        Err(e) => {
            forget(e);
            assert!(false, "VERIF: reader rejects a well formed compressed cluster");
        }
    }
    kani::cover!(data_size == 200, "expanded on read");
}

vharness! {
    #[kani::unwind(15)]
    #[kani::stub(crate::bases::assert_slice_crc, crate::verif_common::crc_oracle)]
    #[kani::stub(super::zstd_source, stub_source)]
    #[kani::stub(super::lz4_source, stub_source)]
    #[kani::stub(super::lzma_source, stub_source)]
    fn c01_raw_origin() {
        // case split keeps the kind and the tail position concrete in each call
        let k: u8 = kani::any();
        if k == 0 { raw_origin(1, 0) }
        else if k == 1 { raw_origin(2, 1) }
        else if k == 2 { raw_origin(3, 8) }
        else { raw_origin(3, 0) }
    }
}
