// C03 (reader side) — lookup in an index window; the reader's order on values.
// Injected as a child module of `crate::reader::directory_pack`.
#![allow(dead_code, unused_imports, unused_variables)]

use super::range::{CompareTrait, RangeTrait};
use super::raw_value::{Array, Extend};
use super::{RawValue, ValueStoreTrait};
use crate::bases::*;
use crate::common::Value;
use crate::verif_common::*;
use std::cmp::Ordering;
use std::sync::Arc;

// @h c03_find | RangeTrait::find (binary and linear branches); IntoIter of EntryCount; Idx/Count arithmetic | a sorted sequence of N one-byte keys (all values, duplicates allowed), the number of keys in the window (<= N), the window offset (any u32 leaving room), the probe | Some(i) => i inside the window and key[i] == probe; None => no key equals the probe; binary and linear search agree on presence; the comparator is only asked about entries inside the window; no overflow | N = 6 (quick), 9 (thorough)
// @h c03_array_cmp | reader Array::cmp; ArrayIter::{new,next,setup_extend}; Array::new | inline part (<= 2 bytes), stored part (<= 3 bytes, through a store), declared size Some/None, the probe (<= 4 bytes) | == lexicographic order of (inline ++ stored) against the probe | 5 + 4 bytes
// @h c03_int_cmp | RawValue::partial_cmp (integer arms) | stored raw value of each width and sign, probe value | == numeric order; kinds that do not match => None | 64 bit

struct Window {
    offset: u32,
    count: u32,
}
impl RangeTrait for Window {
    fn count(&self) -> EntryCount {
        EntryCount::from(self.count)
    }
    fn offset(&self) -> EntryIdx {
        EntryIdx::from(self.offset)
    }
}

struct KeyCmp<'a, const N: usize> {
    keys: &'a [u8; N],
    offset: u32,
    count: u32,
    probe: u8,
    ordered: bool,
}
impl<const N: usize> CompareTrait for KeyCmp<'_, N> {
    fn ordered(&self) -> bool {
        self.ordered
    }
    fn compare_entry(&self, idx: EntryIdx) -> Result<Ordering> {
        let i = idx.into_u32();
        assert!(i >= self.offset && i - self.offset < self.count, "VERIF: comparator asked about an entry outside the index window");
        Ok(self.keys[(i - self.offset) as usize].cmp(&self.probe))
    }
}

fn find_body<const N: usize>(canary: bool) {
    let keys: [u8; N] = kani::any();
    let count: u32 = kani::any();
    kani::assume(count as usize <= N);
    let mut i = 1;
    while i < N {
        // sorted inside the window (what C03's first half guarantees for a sorted store)
        kani::assume(i as u32 >= count || keys[i - 1] <= keys[i]);
        i += 1;
    }
    let offset: u32 = kani::any();
    kani::assume(offset <= u32::MAX - N as u32);
    let probe: u8 = kani::any();
    let w = Window { offset, count };
    let present = {
        let mut p = false;
        let mut j = 0;
        while j < N {
            if (j as u32) < count && keys[j] == probe { p = true; }
            j += 1;
        }
        p
    };
    let bin = match w.find(&KeyCmp { keys: &keys, offset, count, probe, ordered: true }) {
        Ok(r) => r,
        Err(e) => { forget(e); assert!(false, "VERIF: find failed"); None }
    };
    let lin = match w.find(&KeyCmp { keys: &keys, offset, count, probe, ordered: false }) {
        Ok(r) => r,
        Err(e) => { forget(e); assert!(false, "VERIF: find failed"); None }
    };
    match bin {
        Some(i) => {
            assert!(i.into_u32() < count, "VERIF: binary search answered outside the window");
            assert!(keys[i.into_u32() as usize] == probe, "VERIF: binary search returned an entry with another key");
        }
        None => assert!(!present, "VERIF: binary search missed a key that is in the window"),
    }
    match lin {
        Some(i) => {
            assert!(i.into_u32() < count, "VERIF: linear search answered outside the window");
            assert!(keys[i.into_u32() as usize] == probe, "VERIF: linear search returned an entry with another key");
        }
        None => assert!(!present, "VERIF: linear search missed a key that is in the window"),
    }
    assert!(bin.is_some() == lin.is_some(), "VERIF: binary and linear search disagree");
    kani::cover!(present && count as usize == N && offset > 1000, "found in a full shifted window");
    kani::cover!(!present && count > 2, "absent");
    kani::cover!(count == 0, "empty window");
    if canary {
        assert!(false, "CANARY");
    }
}

vharness! {
    #[kani::unwind(9)]
    fn c03_find_6() { find_body::<6>(false) }
}
vharness! {
    #[kani::unwind(9)]
    fn c03_canary_find() { find_body::<6>(true) }
}
vharness! {
    #[kani::unwind(12)]
    fn c03t_find_9() { find_body::<9>(false) }
}

// ---- reader order on arrays ----------------------------------------------------------------------
#[derive(Debug)]
struct TailStore {
    data: [u8; 3],
    len: usize,
}
impl ValueStoreTrait for TailStore {
    fn get_data(&self, _id: ValueIdx, size: Option<ASize>) -> Result<&[u8]> {
        // an indexed store answers the whole value without a size, `size` bytes with one
        let n = match size {
            Some(s) => s.into_usize(),
            None => self.len,
        };
        if n > self.len {
            return Err(format_error!("out of store"));
        }
        Ok(&self.data[..n])
    }
}

fn lex(a: &[u8], b: &[u8]) -> Ordering {
    let mut i = 0;
    while i < a.len() && i < b.len() {
        if a[i] != b[i] {
            return if a[i] < b[i] { Ordering::Less } else { Ordering::Greater };
        }
        i += 1;
    }
    if a.len() < b.len() { Ordering::Less } else if a.len() > b.len() { Ordering::Greater } else { Ordering::Equal }
}

vharness! {
    #[kani::unwind(8)]
    fn c03_array_cmp() {
        let fixed: usize = kani::any();
        kani::assume(fixed <= 2);
        let tail_len: usize = kani::any();
        kani::assume(tail_len <= 3);
        let full: [u8; 5] = kani::any();
        // total length; a value shorter than the fixed part has no stored part
        let inline_len: usize = kani::any();
        kani::assume(inline_len <= fixed && (inline_len == fixed || tail_len == 0));
        let total = inline_len + tail_len;
        let mut base = BaseArray::default();
        let mut i = 0;
        while i < inline_len { base.data[i] = full[i]; i += 1; }
        let mut tail = [0u8; 3];
        i = 0;
        while i < tail_len { tail[i] = full[inline_len + i]; i += 1; }
        let store: Arc<dyn ValueStoreTrait> = Arc::new(TailStore { data: tail, len: tail_len });
        let sized: bool = kani::any();
        // without a stored size the whole inline part counts (IndirectArray columns have none)
        kani::assume(sized || inline_len == fixed);
        let a = Array::new(if sized { Some(ASize::new(total)) } else { None }, base, fixed as u8, Some(Extend::new(store, ValueIdx::from(0u64))));
        let probe: [u8; 4] = kani::any();
        let plen: usize = kani::any();
        kani::assume(plen <= 4);
        match a.cmp(&probe[..plen]) {
            Ok(o) => assert!(o == lex(&full[..total], &probe[..plen]), "VERIF: reader order on arrays is not the byte order of the whole value"),
            Err(e) => { forget(e); assert!(false, "VERIF: array comparison failed"); }
        }
        kani::cover!(inline_len == 2 && tail_len == 3 && plen == 4, "longest");
        kani::cover!(total == 0 && plen == 0, "both empty");
        kani::cover!(inline_len == 1 && fixed == 2, "shorter than the inline part");
        std::mem::forget(a);
    }
}

vharness! {
    #[kani::unwind(4)]
    fn c03_int_cmp() {
        let v: u64 = kani::any();
        let s: i64 = kani::any();
        let r8: u8 = kani::any(); let r16: u16 = kani::any(); let r32: u32 = kani::any(); let r64: u64 = kani::any();
        let i8_: i8 = kani::any(); let i16_: i16 = kani::any(); let i32_: i32 = kani::any(); let i64_: i64 = kani::any();
        let chk = |r: Result<Option<Ordering>>, expect: Option<Ordering>| match r {
            Ok(o) => assert!(o == expect, "VERIF: reader order on integers is not the numeric order"),
            Err(e) => { forget(e); assert!(false); }
        };
        chk(RawValue::U8(r8).partial_cmp(&Value::Unsigned(v)), Some((r8 as u64).cmp(&v)));
        chk(RawValue::U16(r16).partial_cmp(&Value::Unsigned(v)), Some((r16 as u64).cmp(&v)));
        chk(RawValue::U32(r32).partial_cmp(&Value::Unsigned(v)), Some((r32 as u64).cmp(&v)));
        chk(RawValue::U64(r64).partial_cmp(&Value::Unsigned(v)), Some(r64.cmp(&v)));
        chk(RawValue::I8(i8_).partial_cmp(&Value::Signed(s)), Some((i8_ as i64).cmp(&s)));
        chk(RawValue::I16(i16_).partial_cmp(&Value::Signed(s)), Some((i16_ as i64).cmp(&s)));
        chk(RawValue::I32(i32_).partial_cmp(&Value::Signed(s)), Some((i32_ as i64).cmp(&s)));
        chk(RawValue::I64(i64_).partial_cmp(&Value::Signed(s)), Some(i64_.cmp(&s)));
        // kinds that do not match are not comparable
        chk(RawValue::U8(r8).partial_cmp(&Value::Signed(s)), None);
        chk(RawValue::I64(i64_).partial_cmp(&Value::Unsigned(v)), None);
        kani::cover!(i8_ < 0 && s > 0, "negative stored value");
    }
}
