// Common stubs, monitors and helpers shared by all harness modules.
// Injected at the crate root of the scratch copy as `mod verif_common` (cfg(kani) only).
#![allow(dead_code, unused_imports, unused_macros)]

use crate::bases::*;

// ---------------------------------------------------------------------------------------------
// S-fmt / S-bt: formatting and backtrace capture are never the subject of a harness.
// ---------------------------------------------------------------------------------------------
pub(crate) fn stub_format(_args: std::fmt::Arguments<'_>) -> String {
    String::new()
}

pub(crate) fn stub_bt_capture() -> std::backtrace::Backtrace {
    std::backtrace::Backtrace::disabled()
}

// ---------------------------------------------------------------------------------------------
// O-crc: oracle standing for `assert_slice_crc`. Records what it was asked about.
// ---------------------------------------------------------------------------------------------
pub(crate) static mut CRC_CALLS: usize = 0;
pub(crate) static mut CRC_LAST_PTR: usize = 0;
pub(crate) static mut CRC_LAST_LEN: usize = 0;
/// 0 = accept, 1 = reject, 2 = nondeterministic verdict (recorded in CRC_LAST_VERDICT)
pub(crate) static mut CRC_MODE: u8 = 0;
pub(crate) static mut CRC_LAST_ACCEPT: bool = true;

pub(crate) fn crc_oracle(buf: &[u8]) -> Result<()> {
    unsafe {
        CRC_CALLS += 1;
        CRC_LAST_PTR = buf.as_ptr() as usize;
        CRC_LAST_LEN = buf.len();
        let accept = match CRC_MODE {
            0 => true,
            1 => false,
            _ => kani::any(),
        };
        CRC_LAST_ACCEPT = accept;
        if accept {
            Ok(())
        } else {
            Err(CorruptedFile {
                buf: Vec::new(),
                found_checksum: [0; 4],
            }
            .into())
        }
    }
}

// ---------------------------------------------------------------------------------------------
// M-tru / M-tri: truncation monitors for Serializer::write_usized / write_isized.
// They replace the byte producing function by an assertion that the value fits the width the
// caller chose. Used where the *choice of width* is the subject.
// ---------------------------------------------------------------------------------------------
pub(crate) static mut MON_WRITES: usize = 0;

pub(crate) fn mon_write_usized(
    _ser: &mut Serializer,
    value: u64,
    size: ByteSize,
) -> IoResult<usize> {
    let size = size as usize;
    unsafe {
        MON_WRITES += 1;
    }
    assert!(
        size >= 8 || value < (1u64 << (8 * size)),
        "VERIF: unsigned value does not fit the width chosen by the writer"
    );
    Ok(size)
}

pub(crate) fn mon_write_isized(
    _ser: &mut Serializer,
    value: i64,
    size: ByteSize,
) -> IoResult<usize> {
    let size = size as usize;
    unsafe {
        MON_WRITES += 1;
    }
    if size < 8 {
        let lim = 1i64 << (8 * size - 1);
        assert!(
            value >= -lim && value < lim,
            "VERIF: signed value does not fit the width chosen by the writer"
        );
    }
    Ok(size)
}

// ---------------------------------------------------------------------------------------------
// helpers
// ---------------------------------------------------------------------------------------------

/// Forget an error value instead of dropping it (io::Error drop glue is expensive to encode).
pub(crate) fn forget<T>(v: T) {
    std::mem::forget(v)
}

/// little endian decode of the first `w` bytes (reference, independent of zerocopy)
pub(crate) fn ref_le_uint(b: &[u8], w: usize) -> u64 {
    let mut v: u64 = 0;
    let mut i = 0;
    while i < w {
        v |= (b[i] as u64) << (8 * i);
        i += 1;
    }
    v
}

pub(crate) fn ref_le_int(b: &[u8], w: usize) -> i64 {
    let u = ref_le_uint(b, w);
    if w >= 8 {
        u as i64
    } else {
        let sign = 1u64 << (8 * w - 1);
        if u & sign != 0 {
            (u | !((1u64 << (8 * w)) - 1)) as i64
        } else {
            u as i64
        }
    }
}

/// Standard attributes of every harness: proof + the two mandatory stubs.
macro_rules! vharness {
    ($(#[$m:meta])* fn $name:ident() $body:block) => {
        #[kani::proof]
        #[kani::stub(std::fmt::format, crate::verif_common::stub_format)]
        #[kani::stub(std::backtrace::Backtrace::capture, crate::verif_common::stub_bt_capture)]
        $(#[$m])*
        fn $name() $body
    };
}
pub(crate) use vharness;
