// Common stubs, monitors and helpers shared by all harness modules.
// Injected at the crate root of the scratch copy as `mod verif_common` (cfg(kani) only).
#![allow(dead_code, unused_imports, unused_macros)]

use crate::bases::*;

// ---------------------------------------------------------------------------------------------
// S-fmt / S-bt: formatting and backtrace capture are never the subject of a harness.
// ---------------------------------------------------------------------------------------------
pub(crate) fn stub_format(_args: std::fmt::Arguments<'_>) -> String {
    String::new()
}

/// S-utf8: UTF-8 validation is replaced by acceptance in harnesses whose names are concrete ASCII
/// (std's validator branches on pointer alignment, which triples the cost of every name parse).
pub(crate) fn stub_from_utf8(v: &[u8]) -> std::result::Result<&str, std::str::Utf8Error> {
    Ok(unsafe { std::str::from_utf8_unchecked(v) })
}

pub(crate) fn stub_bt_capture() -> std::backtrace::Backtrace {
    std::backtrace::Backtrace::disabled()
}

// ---------------------------------------------------------------------------------------------
// O-crc: oracle standing for `assert_slice_crc`. Records what it was asked about.
// ---------------------------------------------------------------------------------------------
pub(crate) static mut CRC_CALLS: usize = 0;
/// (first byte of the block asked about, length asked about) for the first 4 calls
pub(crate) static mut CRC_LOG: [(u8, usize); 4] = [(0, 0); 4];
/// verdict per call: 0 = accept, 1 = reject, 2 = nondeterministic
pub(crate) static mut CRC_MODE: [u8; 4] = [0; 4];
pub(crate) static mut CRC_VERDICT: [bool; 4] = [true; 4];

pub(crate) fn crc_reset(modes: [u8; 4]) {
    unsafe {
        CRC_CALLS = 0;
        CRC_MODE = modes;
    }
}

pub(crate) fn crc_oracle(buf: &[u8]) -> Result<()> {
    unsafe {
        let k = if CRC_CALLS < 4 { CRC_CALLS } else { 3 };
        CRC_LOG[k] = (if buf.len() > 0 { buf[0] } else { 0 }, buf.len());
        let accept = match CRC_MODE[k] {
            0 => true,
            1 => false,
            _ => kani::any(),
        };
        CRC_VERDICT[k] = accept;
        CRC_CALLS += 1;
        if accept {
            Ok(())
        } else {
            Err(CorruptedFile {
                buf: Vec::new(),
                found_checksum: [0; 4],
            }
            .into())
        }
    }
}

// ---------------------------------------------------------------------------------------------
// M-log: monitors replacing the primitive writes of `Serializer`. Instead of materialising bytes
// (a write whose width CBMC cannot fold to a constant costs > 1M variables) every primitive write
// is recorded in a ghost log as (kind, value, width) and the harness compares the log with the
// sequence the pinned layout prescribes. `write_usized` / `write_isized` additionally assert that
// the value fits the width the caller chose (M-tru / M-tri: silent truncation).
// That the primitives themselves emit little-endian bytes in call order is C14's obligation
// (c14_prim_*), decided on the real functions with literal widths.
// ---------------------------------------------------------------------------------------------
pub(crate) const LOG_CAP: usize = 24;
/// kind: 1 = unsigned integer, 2 = signed integer, 3 = raw data.
/// Integers: v[0] = value. Raw data: v = the first (up to 32) bytes, little endian packed.
pub(crate) static mut LOG: [(u8, usize, [u64; 4]); LOG_CAP] = [(0, 0, [0; 4]); LOG_CAP];
pub(crate) static mut LOG_N: usize = 0;
pub(crate) static mut MON_WRITES: usize = 0;

pub(crate) fn log_reset() {
    unsafe {
        LOG_N = 0;
        MON_WRITES = 0;
    }
}

pub(crate) fn log_len() -> usize {
    unsafe { LOG_N }
}
pub(crate) fn log_at(k: usize) -> (u8, usize, [u64; 4]) {
    assert!(k < unsafe { LOG_N }, "VERIF: fewer fields written than the layout prescribes");
    unsafe { LOG[k] }
}

fn log_push(kind: u8, size: usize, v: [u64; 4]) {
    unsafe {
        assert!(LOG_N < LOG_CAP, "VERIF: harness log capacity exceeded");
        LOG[LOG_N] = (kind, size, v);
        LOG_N += 1;
    }
}

pub(crate) fn pack32(buf: &[u8]) -> [u64; 4] {
    let mut v = [0u64; 4];
    let mut i = 0;
    while i < buf.len() && i < 32 {
        v[i / 8] |= (buf[i] as u64) << (8 * (i % 8));
        i += 1;
    }
    v
}

pub(crate) fn mon_write_usized(_ser: &mut Serializer, value: u64, size: ByteSize) -> IoResult<usize> {
    let size = size as usize;
    unsafe {
        MON_WRITES += 1;
    }
    assert!(
        size >= 8 || value < (1u64 << (8 * size)),
        "VERIF: unsigned value does not fit the width chosen by the writer"
    );
    log_push(1, size, [value, 0, 0, 0]);
    Ok(size)
}

pub(crate) fn mon_write_isized(_ser: &mut Serializer, value: i64, size: ByteSize) -> IoResult<usize> {
    let size = size as usize;
    unsafe {
        MON_WRITES += 1;
    }
    if size < 8 {
        let lim = 1i64 << (8 * size - 1);
        assert!(
            value >= -lim && value < lim,
            "VERIF: signed value does not fit the width chosen by the writer"
        );
    }
    log_push(2, size, [value as u64, 0, 0, 0]);
    Ok(size)
}

pub(crate) fn mon_write_u8(_ser: &mut Serializer, value: u8) -> IoResult<usize> {
    log_push(1, 1, [value as u64, 0, 0, 0]);
    Ok(1)
}
pub(crate) fn mon_write_u16(_ser: &mut Serializer, value: u16) -> IoResult<usize> {
    log_push(1, 2, [value as u64, 0, 0, 0]);
    Ok(2)
}
pub(crate) fn mon_write_u32(_ser: &mut Serializer, value: u32) -> IoResult<usize> {
    log_push(1, 4, [value as u64, 0, 0, 0]);
    Ok(4)
}
pub(crate) fn mon_write_u64(_ser: &mut Serializer, value: u64) -> IoResult<usize> {
    log_push(1, 8, [value, 0, 0, 0]);
    Ok(8)
}
pub(crate) fn mon_write_data(_ser: &mut Serializer, buf: &[u8]) -> IoResult<usize> {
    if buf.len() > 0 {
        log_push(3, buf.len(), pack32(buf));
    }
    Ok(buf.len())
}

/// An expected primitive write: (kind, size, value / first bytes).
#[derive(Clone, Copy)]
pub(crate) struct W(pub u8, pub usize, pub [u64; 4]);
pub(crate) fn wu(v: u64, size: usize) -> W {
    W(1, size, [v, 0, 0, 0])
}
pub(crate) fn wi(v: i64, size: usize) -> W {
    W(2, size, [v as u64, 0, 0, 0])
}
/// raw data of `size` bytes whose first (up to 8) bytes are `v` little endian, the rest zero
pub(crate) fn wd(v: u64, size: usize) -> W {
    W(3, size, [v, 0, 0, 0])
}
/// raw data of `size` bytes starting with `bytes` (<= 32 compared), the rest zero
pub(crate) fn wdb(bytes: &[u8], size: usize) -> W {
    W(3, size, pack32(bytes))
}

/// Symbolically: the ghost log equals `exp` (zero length data writes are ignored on both sides).
/// Natively (replay, no stubs): `real` holds the bytes actually written; they must equal the
/// reference encoding of `exp` (little endian, in order).
pub(crate) fn expect_writes(exp: &[W], real: &[u8]) {
    if is_symbolic() {
        let mut k = 0;
        let mut i = 0;
        while i < exp.len() {
            let W(kind, size, v) = exp[i];
            if !(kind == 3 && size == 0) {
                assert!(k < unsafe { LOG_N }, "VERIF: fewer fields written than the layout prescribes");
                let (lk, ls, lv) = unsafe { LOG[k] };
                assert!(ls == size, "VERIF: field width differs from the layout");
                if kind == 3 || lk == 3 {
                    assert!(lk == kind, "VERIF: field kind differs from the layout");
                    assert!(
                        lv[0] == v[0] && lv[1] == v[1] && lv[2] == v[2] && lv[3] == v[3],
                        "VERIF: data bytes differ from the layout"
                    );
                } else {
                    // signed and unsigned writes of the same width produce the same bytes iff
                    // the values agree on `size` bytes
                    let mask = if size >= 8 { u64::MAX } else { (1u64 << (8 * size)) - 1 };
                    assert!((lv[0] & mask) == (v[0] & mask), "VERIF: field value differs from the layout");
                }
                k += 1;
            }
            i += 1;
        }
        assert!(k == unsafe { LOG_N }, "VERIF: more fields written than the layout prescribes");
    } else {
        let mut pos = 0usize;
        for W(kind, size, v) in exp.iter().copied() {
            assert!(pos + size <= real.len(), "VERIF: fewer bytes written than the layout prescribes");
            let n = if kind == 3 { if size < 32 { size } else { 32 } } else if size < 8 { size } else { 8 };
            for i in 0..n {
                assert!(real[pos + i] == (v[i / 8] >> (8 * (i % 8))) as u8, "VERIF: bytes written differ from the layout");
            }
            pos += size;
        }
        assert!(pos == real.len(), "VERIF: more bytes written than the layout prescribes");
    }
}

// ---------------------------------------------------------------------------------------------
// symbolic / native mode. Stubs are not applied when a counterexample is replayed natively
// (cargo kani playback): `is_symbolic()` is stubbed to `true` in every harness, so it answers
// `false` exactly in a native replay. Harnesses that rely on monitor or oracle stubs use it to
// run the equivalent concrete check (real bytes, real CRC) when replayed.
// ---------------------------------------------------------------------------------------------
pub(crate) fn is_symbolic() -> bool {
    false
}
pub(crate) fn is_symbolic_yes() -> bool {
    true
}

/// needed_bytes replaced by a constant width (see `nb_range`): the characterisation of the real
/// `needed_bytes` is a separate obligation (c14_needed_bytes).
pub(crate) static mut NB_WIDTH: usize = 1;
pub(crate) fn needed_bytes_const<T>(_val: T) -> ByteSize
where
    T: std::cmp::PartialOrd + std::ops::Shr<Output = T> + From<u8>,
{
    byte_size(unsafe { NB_WIDTH })
}

pub(crate) fn byte_size(w: usize) -> ByteSize {
    match w {
        1 => ByteSize::U1,
        2 => ByteSize::U2,
        3 => ByteSize::U3,
        4 => ByteSize::U4,
        5 => ByteSize::U5,
        6 => ByteSize::U6,
        7 => ByteSize::U7,
        _ => ByteSize::U8,
    }
}

/// true iff needed_bytes(v) == w according to its specification
pub(crate) fn in_width_range(v: u64, w: usize) -> bool {
    let hi_ok = w >= 8 || v < (1u64 << (8 * w));
    let lo_ok = w == 1 || v >= (1u64 << (8 * (w - 1)));
    hi_ok && lo_ok
}

/// Bitwise CRC-32C as pinned by the format (poly 0x1EDC6F41, init 0xFFFFFFFF, no reflection, no
/// xorout), independent of the `crc` crate. Used natively to patch valid CRCs into buffers and
/// symbolically as the reference of C05-K1.
pub(crate) fn ref_crc(data: &[u8]) -> u32 {
    let mut crc: u32 = 0xFFFF_FFFF;
    let mut i = 0;
    while i < data.len() {
        crc ^= (data[i] as u32) << 24;
        let mut k = 0;
        while k < 8 {
            crc = if crc & 0x8000_0000 != 0 { (crc << 1) ^ 0x1EDC_6F41 } else { crc << 1 };
            k += 1;
        }
        i += 1;
    }
    crc
}

/// In a native replay, make `buf[off..off+len+4]` a block with a valid (or deliberately invalid)
/// CRC so that the real `assert_slice_crc` answers like the oracle did. No-op symbolically.
pub(crate) fn native_set_crc(buf: &mut [u8], off: usize, len: usize, valid: bool) {
    if is_symbolic() {
        return;
    }
    let c = ref_crc(&buf[off..off + len]);
    let c = if valid { c } else { !c };
    buf[off + len..off + len + 4].copy_from_slice(&c.to_be_bytes());
}

// ---------------------------------------------------------------------------------------------
// helpers
// ---------------------------------------------------------------------------------------------

/// Store an individual nondeterministic byte in every cell (keeps other cells constant for CBMC).
pub(crate) fn fill_any(buf: &mut [u8]) {
    let mut i = 0;
    while i < buf.len() {
        buf[i] = kani::any();
        i += 1;
    }
}

/// Reference little-endian store of the `w` low bytes of `v` at `buf[pos..]`.
pub(crate) fn put_le(buf: &mut [u8], pos: usize, v: u64, w: usize) {
    let mut i = 0;
    while i < w {
        buf[pos + i] = (v >> (8 * i)) as u8;
        i += 1;
    }
}

/// Reference encoding of a cluster tail, written from the pinned layout (shares no code with the
/// library): [compression, width, blob count (u16 LE)] then stored size, data size and the
/// first n-1 cumulative offsets, each `w` bytes little endian. Returns the length.
pub(crate) fn ref_cluster_tail(
    out: &mut [u8],
    comp: u8,
    w: usize,
    raw: u64,
    offs: &[u64],
) -> usize {
    let n = offs.len();
    out[0] = comp;
    out[1] = w as u8;
    out[2] = n as u8;
    out[3] = (n >> 8) as u8;
    put_le(out, 4, raw, w);
    put_le(out, 4 + w, offs[n - 1], w);
    let mut i = 0;
    while i + 1 < n {
        put_le(out, 4 + (2 + i) * w, offs[i], w);
        i += 1;
    }
    4 + (n + 1) * w
}

// ---- O-hash: tap + additive stand-in for blake3 ---------------------------------------------------
pub(crate) static mut H_LEN: u64 = 0;
pub(crate) static mut H_SUM: u64 = 0;
pub(crate) static mut H_WSUM: u64 = 0;

pub(crate) fn stub_hasher_new() -> blake3::Hasher {
    unsafe {
        H_LEN = 0;
        H_SUM = 0;
        H_WSUM = 0;
        std::mem::zeroed()
    }
}
pub(crate) fn stub_update_reader<'a>(h: &'a mut blake3::Hasher, mut reader: impl std::io::Read) -> std::io::Result<&'a mut blake3::Hasher> {
    let mut buf = [0u8; 4];
    loop {
        match reader.read(&mut buf) {
            Ok(0) => break,
            Ok(n) => {
                let mut i = 0;
                while i < n {
                    unsafe {
                        H_SUM = H_SUM.wrapping_add(buf[i] as u64);
                        H_WSUM = H_WSUM.wrapping_add((buf[i] as u64).wrapping_mul(H_LEN + 1));
                        H_LEN += 1;
                    }
                    i += 1;
                }
            }
            Err(e) => return Err(e),
        }
    }
    Ok(h)
}
/// Length-only tap (writer harnesses that only need to know *how much* was hashed).
pub(crate) fn stub_update_reader_len<'a>(h: &'a mut blake3::Hasher, mut reader: impl std::io::Read) -> std::io::Result<&'a mut blake3::Hasher> {
    let mut buf = [0u8; 512];
    loop {
        match reader.read(&mut buf) {
            Ok(0) => break,
            Ok(n) => unsafe { H_LEN += n as u64 },
            Err(e) => return Err(e),
        }
    }
    Ok(h)
}
pub(crate) fn stub_finalize(_h: &blake3::Hasher) -> blake3::Hash {
    let mut out = [0u8; 32];
    unsafe {
        put_le(&mut out, 0, H_LEN, 8);
        put_le(&mut out, 8, H_SUM, 8);
        put_le(&mut out, 16, H_WSUM, 8);
    }
    blake3::Hash::from(out)
}

pub(crate) fn stub_ct_eq_32(a: &[u8; 32], b: &[u8; 32]) -> bool {
    let mut i = 0;
    let mut same = true;
    while i < 32 {
        if a[i] != b[i] { same = false; }
        i += 1;
    }
    same
}

macro_rules! hharness {
    ($(#[$m:meta])* fn $name:ident() $body:block) => {
        crate::verif_common::vharness! {
            #[kani::stub(blake3::Hasher::new, crate::verif_common::stub_hasher_new)]
            #[kani::stub(blake3::Hasher::update_reader, crate::verif_common::stub_update_reader)]
            #[kani::stub(blake3::Hasher::finalize, crate::verif_common::stub_finalize)]
            #[kani::stub(constant_time_eq::constant_time_eq_32, crate::verif_common::stub_ct_eq_32)]
            $(#[$m])*
            fn $name() $body
        }
    };
}

pub(crate) use hharness;

/// The stand-in digest of `data` (what O-hash produces for a stream with these bytes).
pub(crate) fn ref_digest(data: &[u8]) -> [u8; 32] {
    let mut sum = 0u64;
    let mut wsum = 0u64;
    let mut i = 0;
    while i < data.len() {
        sum = sum.wrapping_add(data[i] as u64);
        wsum = wsum.wrapping_add((data[i] as u64).wrapping_mul(i as u64 + 1));
        i += 1;
    }
    let mut out = [0u8; 32];
    put_le(&mut out, 0, data.len() as u64, 8);
    put_le(&mut out, 8, sum, 8);
    put_le(&mut out, 16, wsum, 8);
    out
}

/// Range obligation shared by the three pack kinds: `mk` builds the pack (by struct literal, in a
/// child module of the pack's own module) over a 64 byte image whose first `cip` bytes are the
/// checked body, followed by a blake3 check block holding the stand-in digest of exactly
/// those bytes.
pub(crate) fn check_range<P: crate::common::Pack>(cip: usize, mk: fn(Reader, u64) -> P) {
    let mut img = [0u8; 64];
    fill_any(&mut img[..cip]);
    img[cip] = 1;
    // symbolically the stand-in digest of O-hash; in a native replay (no stubs) the real one
    let d = if is_symbolic() { ref_digest(&img[..cip]) } else { *blake3::hash(&img[..cip]).as_bytes() };
    let mut i = 0;
    while i < 32 {
        img[cip + 1 + i] = d[i];
        i += 1;
    }
    native_set_crc(&mut img, cip, 33, true);
    // the packs' empty pointer tables are read at 60: natively they need their checksum
    native_set_crc(&mut img, 60, 0, true);
    // optionally alter one byte of the body or of the stored digest
    let alter: bool = kani::any();
    let pos: usize = kani::any();
    let mask: u8 = kani::any();
    kani::assume(mask != 0 && pos < cip + 33 && pos != cip);
    if alter {
        img[pos] ^= mask;
        native_set_crc(&mut img, cip, 33, true);
    }
    let pack = mk(Reader::from(img), cip as u64);
    match pack.check() {
        Ok(v) => {
            if is_symbolic() {
                assert!(unsafe { H_LEN } == cip as u64, "VERIF: the integrity check does not cover exactly [0, check_info_pos)");
            }
            assert!(v == !alter, "VERIF: integrity check verdict is wrong (pristine pack refused or altered pack accepted)");
        }
        Err(e) => { forget(e); assert!(alter, "VERIF: integrity check of a pristine pack failed"); }
    }
    kani::cover!(alter && pos == 0, "first body byte altered");
    kani::cover!(alter && pos == cip - 1, "last body byte altered");
    kani::cover!(alter && pos > cip, "stored digest altered");
    kani::cover!(!alter, "pristine");
    std::mem::forget(pack);
}

/// Forget an error value instead of dropping it (io::Error drop glue is expensive to encode).
pub(crate) fn forget<T>(v: T) {
    std::mem::forget(v)
}

/// little endian decode of the first `w` bytes (reference, independent of zerocopy)
pub(crate) fn ref_le_uint(b: &[u8], w: usize) -> u64 {
    let mut v: u64 = 0;
    let mut i = 0;
    while i < w {
        v |= (b[i] as u64) << (8 * i);
        i += 1;
    }
    v
}

pub(crate) fn ref_le_int(b: &[u8], w: usize) -> i64 {
    let u = ref_le_uint(b, w);
    if w >= 8 {
        u as i64
    } else {
        let sign = 1u64 << (8 * w - 1);
        if u & sign != 0 {
            (u | !((1u64 << (8 * w)) - 1)) as i64
        } else {
            u as i64
        }
    }
}

/// Standard attributes of every harness: proof + the two mandatory stubs.
macro_rules! vharness {
    ($(#[$m:meta])* fn $name:ident() $body:block) => {
        #[kani::proof]
        #[kani::stub(std::fmt::format, crate::verif_common::stub_format)]
        #[kani::stub(std::backtrace::Backtrace::capture, crate::verif_common::stub_bt_capture)]
        #[kani::stub(crate::verif_common::is_symbolic, crate::verif_common::is_symbolic_yes)]
        $(#[$m])*
        fn $name() $body
    };
}
pub(crate) use vharness;

/// vharness + M-log on every primitive write of `Serializer`.
macro_rules! wharness {
    ($(#[$m:meta])* fn $name:ident() $body:block) => {
        crate::verif_common::vharness! {
            #[kani::stub(crate::bases::Serializer::write_usized, crate::verif_common::mon_write_usized)]
            #[kani::stub(crate::bases::Serializer::write_isized, crate::verif_common::mon_write_isized)]
            #[kani::stub(crate::bases::Serializer::write_u8, crate::verif_common::mon_write_u8)]
            #[kani::stub(crate::bases::Serializer::write_u16, crate::verif_common::mon_write_u16)]
            #[kani::stub(crate::bases::Serializer::write_u32, crate::verif_common::mon_write_u32)]
            #[kani::stub(crate::bases::Serializer::write_u64, crate::verif_common::mon_write_u64)]
            #[kani::stub(crate::bases::Serializer::write_data, crate::verif_common::mon_write_data)]
            $(#[$m])*
            fn $name() $body
        }
    };
}
pub(crate) use wharness;
