// C16 — the compression hint decides which open cluster a content joins and which path the
// cluster takes when it is closed.
// Injected as a child module of `crate::creator::content_pack::creator`
// (sees ContentPackCreator's private fields and methods).
//
// Outside (DESIGN.md section 5): CompHint::Detect (floating point entropy), the compression
// itself (FFI) and the bytes the worker / writer threads produce, CachedContentAdder (HashMap
// keyed by a blake3 hash).
#![allow(dead_code, unused_imports, unused_variables)]

use super::super::cluster::ClusterCreator;
use super::super::clusterwriter::verif_c16w::{pick_compression, queued, threadless_proxy, Taps};
use super::super::CompHint;
use super::ContentPackCreator;
use crate::bases::*;
use crate::creator::{Compression, InputReader, MaybeFileReader, NamedFile};
use crate::verif_common::*;
use std::cell::Cell;
use std::io::{Read, Seek, SeekFrom};
use std::sync::Arc;

// @h c16_hint | ContentPackCreator::{add_content,detect_compression,get_open_cluster,setup_slot_and_get_to_close,open_cluster}; ClusterCreator::{new,is_full,add_content} | pack compression (none / zstd), two contents (3 and 5 bytes) with symbolic hints (Yes / No) | a content joins the compressed open cluster iff the pack compresses and its hint is Yes, otherwise the raw one; the two kinds never share a cluster; blob positions and content ids follow insertion order; no cluster is closed | 2 contents; creator built by struct literal without threads
// @h c16_close | same + ClusterWriterProxy::write_cluster | a compressed open cluster holding 4 MiB, then a 9 byte content with a symbolic hint in a pack with symbolic compression | a content that does not fit closes exactly the cluster of its own kind, which takes the worker path iff it is a compressed cluster of a compressing pack; the content starts a new cluster of the same kind; a raw content never closes the compressed cluster | one closed cluster

struct FakeInput {
    size: u64,
}
impl Read for FakeInput {
    fn read(&mut self, _buf: &mut [u8]) -> std::io::Result<usize> {
        Ok(0)
    }
}
impl Seek for FakeInput {
    fn seek(&mut self, _pos: SeekFrom) -> std::io::Result<u64> {
        Ok(0)
    }
}
impl InputReader for FakeInput {
    fn size(&self) -> Size {
        Size::new(self.size)
    }
    fn get_file_source(self: Box<Self>) -> MaybeFileReader {
        MaybeFileReader::No(self)
    }
}

/// ManuallyDrop: a failing assertion unwinds natively (replay), and the thread handle of the
/// threadless proxy must never be dropped.
fn creator(compression: Compression) -> (std::mem::ManuallyDrop<ContentPackCreator<NamedFile>>, std::mem::ManuallyDrop<Taps>) {
    let (proxy, taps) = threadless_proxy::<Box<NamedFile>>(compression, 0, 4);
    let c = ContentPackCreator {
        app_vendor_id: VendorId::from([0u8; 4]),
        pack_id: PackId::from(7u16),
        free_data: PackFreeData::from([0u8; 24]),
        content_infos: Vec::with_capacity(4),
        raw_open_cluster: None,
        comp_open_cluster: None,
        next_cluster_id: Cell::new(0),
        cluster_writer: proxy,
        progress: Arc::new(()),
        compression,
    };
    (std::mem::ManuallyDrop::new(c), std::mem::ManuallyDrop::new(taps))
}

fn hint(yes: bool) -> CompHint {
    if yes {
        CompHint::Yes
    } else {
        CompHint::No
    }
}

const MIB4: u64 = 4 * 1024 * 1024;

/// a cluster reveals how it was opened: only a compressed, non empty one is ever full by size
fn opened_compressed(c: &ClusterCreator) -> bool {
    !c.offsets.is_empty() && c.is_full(Size::new(MIB4 + 1))
}

fn add(c: &mut ContentPackCreator<NamedFile>, size: u64, yes: bool) -> u32 {
    match c.add_content(Box::new(FakeInput { size }), hint(yes)) {
        Ok(a) => {
            assert!(a.pack_id == PackId::from(7u16), "VERIF: content address names another pack");
            a.content_id.into_u32()
        }
        Err(e) => {
            forget(e);
            assert!(false, "VERIF: add_content failed");
            0
        }
    }
}

/// `compressing`, `y1`, `y2` are constants at every call site (the harness case-splits): a
/// symbolic hint would make symbolic execution wander into the CompHint::Detect branch.
fn hint_case(compressing: bool, y1: bool, y2: bool) {
    // concrete sizes: nothing is full, so the close path is not explored here (c16_close does)
    let s1: u64 = 3;
    let s2: u64 = 5;
    let (mut c, taps) = creator(pick_compression(compressing));
    let id1 = add(&mut c, s1, y1);
    let id2 = add(&mut c, s2, y2);
    assert!(id1 == 0 && id2 == 1, "VERIF: content ids do not follow insertion order");
    let (d, f) = taps.sent();
    assert!(d + f == 0, "VERIF: a cluster was closed although nothing was full");
    let w1 = compressing && y1;
    let w2 = compressing && y2;
    assert!(c.content_infos.len() == 2);
    let i1 = (c.content_infos[0].cluster_index.into_u32(), c.content_infos[0].blob_index.into_u16());
    let i2 = (c.content_infos[1].cluster_index.into_u32(), c.content_infos[1].blob_index.into_u16());
    assert!(i1 == (0, 0), "VERIF: first content is not blob 0 of cluster 0");
    if w1 == w2 {
        assert!(i2 == (0, 1), "VERIF: two contents of one kind do not share the open cluster");
    } else {
        assert!(i2 == (1, 0), "VERIF: a raw and a compressed content share a cluster");
    }
    // the slots: which cluster sits where, how it was opened, what it holds
    if !compressing {
        assert!(c.comp_open_cluster.is_none(), "VERIF: a pack without compression opened a compressed cluster");
    }
    match &c.comp_open_cluster {
        Some(cl) => {
            assert!(w1 || w2, "VERIF: a compressed cluster exists although no content asked for compression");
            assert!(opened_compressed(cl), "VERIF: the cluster in the compressed slot was opened as raw");
            let want_idx = if w1 { 0 } else { 1 };
            assert!(cl.index.into_u32() == want_idx, "VERIF: compressed slot holds the wrong cluster");
            let want_size = (if w1 { s1 } else { 0 }) + (if w2 { s2 } else { 0 });
            assert!(cl.data_size().into_u64() == want_size, "VERIF: compressed cluster does not hold exactly the contents hinted 'compress'");
        }
        None => assert!(!w1 && !w2, "VERIF: a content hinted 'compress' in a compressing pack was not put in a compressed cluster"),
    }
    match &c.raw_open_cluster {
        Some(cl) => {
            assert!(!w1 || !w2, "VERIF: a raw cluster exists although every content asked for compression");
            assert!(!opened_compressed(cl), "VERIF: the cluster in the raw slot was opened as compressed");
            let want_idx = if !w1 { 0 } else { 1 };
            assert!(cl.index.into_u32() == want_idx, "VERIF: raw slot holds the wrong cluster");
            let want_size = (if !w1 { s1 } else { 0 }) + (if !w2 { s2 } else { 0 });
            assert!(cl.data_size().into_u64() == want_size, "VERIF: raw cluster does not hold exactly the contents to be stored verbatim");
        }
        None => assert!(w1 && w2, "VERIF: a content hinted 'do not compress' (or of a pack without compression) was not put in a raw cluster"),
    }
}

fn hint_body(canary: bool) {
    let compressing: bool = kani::any();
    let y1: bool = kani::any();
    let y2: bool = kani::any();
    match (compressing, y1, y2) {
        (false, false, false) => hint_case(false, false, false),
        (false, false, true) => hint_case(false, false, true),
        (false, true, false) => hint_case(false, true, false),
        (false, true, true) => hint_case(false, true, true),
        (true, false, false) => hint_case(true, false, false),
        (true, false, true) => hint_case(true, false, true),
        (true, true, false) => hint_case(true, true, false),
        (true, true, true) => hint_case(true, true, true),
    }
    kani::cover!(compressing && y1 && !y2, "compressed then raw");
    kani::cover!(!compressing && y1 && y2, "hints ignored without compression");
    if canary {
        assert!(false, "CANARY");
    }
}

vharness! {
    #[kani::unwind(8)]
    #[kani::stub(spmc::Sender::send, crate::creator::content_pack::clusterwriter::verif_c16w::stub_spmc_send)]
    #[kani::stub(std::sync::mpsc::Sender::send, crate::creator::content_pack::clusterwriter::verif_c16w::stub_mpsc_send)]
    fn c16_hint() { hint_body(false) }
}
vharness! {
    #[kani::unwind(8)]
    #[kani::stub(spmc::Sender::send, crate::creator::content_pack::clusterwriter::verif_c16w::stub_spmc_send)]
    #[kani::stub(std::sync::mpsc::Sender::send, crate::creator::content_pack::clusterwriter::verif_c16w::stub_mpsc_send)]
    fn c16_canary_hint() { hint_body(true) }
}

vharness! {
    #[kani::unwind(8)]
    #[kani::stub(spmc::Sender::send, crate::creator::content_pack::clusterwriter::verif_c16w::stub_spmc_send)]
    #[kani::stub(std::sync::mpsc::Sender::send, crate::creator::content_pack::clusterwriter::verif_c16w::stub_mpsc_send)]
    fn c16_close() {
        let compressing: bool = kani::any();
        let y: bool = kani::any();
        match (compressing, y) {
            (false, false) => close_case(false, false),
            (false, true) => close_case(false, true),
            (true, false) => close_case(true, false),
            (true, true) => close_case(true, true),
        }
        kani::cover!(compressing && y, "closed");
    }
}

fn close_case(compressing: bool, y: bool) {
    {
        let (mut c, taps) = creator(pick_compression(compressing));
        // a pack that compresses has a compressed open cluster holding 4 MiB; one that does not
        // has the same amount in its raw cluster
        let id0 = add(&mut c, MIB4, true);
        assert!(id0 == 0);
        let s: u64 = 9;
        let id1 = add(&mut c, s, y);
        assert!(id1 == 1);
        let (d, f) = taps.sent();
        let info = (c.content_infos[1].cluster_index.into_u32(), c.content_infos[1].blob_index.into_u16());
        if compressing && y {
            // does not fit: the compressed cluster is closed and goes to the workers
            assert!(d == 1 && f == 0, "VERIF: a full compressed cluster of a compressing pack did not take the worker path");
            assert!(queued(&c.cluster_writer) == 1);
            assert!(info == (1, 0), "VERIF: the content did not start a new cluster");
            match &c.comp_open_cluster {
                Some(cl) => assert!(cl.index.into_u32() == 1 && opened_compressed(cl) && cl.data_size().into_u64() == s, "VERIF: new compressed cluster"),
                None => assert!(false, "VERIF: no compressed cluster open"),
            }
            assert!(c.raw_open_cluster.is_none());
        } else if compressing {
            // a raw content leaves the compressed cluster alone
            assert!(d + f == 0, "VERIF: a raw content closed the compressed cluster");
            assert!(info == (1, 0));
            match &c.comp_open_cluster {
                Some(cl) => assert!(cl.index.into_u32() == 0 && cl.data_size().into_u64() == MIB4, "VERIF: compressed cluster changed"),
                None => assert!(false, "VERIF: compressed cluster lost"),
            }
            match &c.raw_open_cluster {
                Some(cl) => assert!(cl.index.into_u32() == 1 && !opened_compressed(cl) && cl.data_size().into_u64() == s, "VERIF: raw cluster"),
                None => assert!(false, "VERIF: no raw cluster open"),
            }
        } else {
            // no compression: everything is raw, raw clusters are not limited by size
            assert!(d + f == 0, "VERIF: a raw cluster was closed by size");
            assert!(info == (0, 1), "VERIF: raw contents do not share the raw cluster");
            assert!(c.comp_open_cluster.is_none());
        }
    }
}

// ---------------------------------------------------------------------------------------------
// explicit hints vs. the entropy heuristic; CompHint::Detect leaves the content untouched
// ---------------------------------------------------------------------------------------------
// @h c16_explicit | ContentPackCreator::{add_content,detect_compression,get_open_cluster,open_cluster}; shannon_entropy replaced by M-ent (counts its calls, returns ANY f32 incl. NaN/inf) | pack compression (none / zstd) and an explicit hint (Yes / No), both symbolic, one 512 byte content | the content sits in the compressed open cluster iff the pack compresses and the hint is Yes, whatever the entropy heuristic would answer; the heuristic is not consulted and the content's reader is not touched | 1 content; natively (replay) the content is 512 bytes of maximal entropy and the real shannon_entropy runs
// (a c16_detect twin for CompHint::Detect was tried: the sniffing read through Take/read_to_end gives no verdict in 15 min; sniff_case(.., 2) is kept for native use only)

static mut ENT_CALLS: u32 = 0;
static mut ENT_LAST_LE6: bool = false;
static mut IN_POS: u64 = 0;
static mut IN_READS: u32 = 0;

fn mon_entropy(_data: &[u8]) -> f32 {
    let e: f32 = kani::any();
    unsafe {
        ENT_CALLS += 1;
        ENT_LAST_LE6 = e <= 6.0;
    }
    e
}

/// Under Kani a read returns no byte but moves the cursor (the model of "the head was sniffed");
/// natively it yields `size` bytes 0,1,2,..: 8 bits of entropy per byte.
struct NoisyInput {
    size: u64,
}
impl Read for NoisyInput {
    fn read(&mut self, buf: &mut [u8]) -> std::io::Result<usize> {
        unsafe {
            IN_READS += 1;
            if is_symbolic() {
                IN_POS = self.size;
                return Ok(0);
            }
            let left = (self.size - IN_POS) as usize;
            let n = std::cmp::min(left, buf.len());
            let mut i = 0;
            while i < n {
                buf[i] = (IN_POS as usize + i) as u8;
                i += 1;
            }
            IN_POS += n as u64;
            Ok(n)
        }
    }
}
impl Seek for NoisyInput {
    fn seek(&mut self, pos: SeekFrom) -> std::io::Result<u64> {
        unsafe {
            match pos {
                SeekFrom::Start(p) => IN_POS = p,
                SeekFrom::Current(d) => IN_POS = (IN_POS as i64 + d) as u64,
                SeekFrom::End(d) => IN_POS = (self.size as i64 + d) as u64,
            }
            Ok(IN_POS)
        }
    }
}
impl InputReader for NoisyInput {
    fn size(&self) -> Size {
        Size::new(self.size)
    }
    fn get_file_source(self: Box<Self>) -> MaybeFileReader {
        MaybeFileReader::No(self)
    }
}

/// which: 0 = No, 1 = Yes, 2 = Detect (constant at every call site)
fn sniff_case(compressing: bool, which: u8) {
    let s: u64 = 512;
    unsafe {
        ENT_CALLS = 0;
        IN_POS = 0;
        IN_READS = 0;
    }
    let (mut c, taps) = creator(pick_compression(compressing));
    let h = match which {
        0 => CompHint::No,
        1 => CompHint::Yes,
        _ => CompHint::Detect,
    };
    match c.add_content(Box::new(NoisyInput { size: s }), h) {
        Ok(a) => assert!(a.content_id.into_u32() == 0),
        Err(e) => {
            forget(e);
            assert!(false, "VERIF: add_content failed");
        }
    }
    let (d, f) = taps.sent();
    assert!(d + f == 0, "VERIF: a cluster was closed although nothing was full");
    let (calls, le6, pos, reads) = unsafe { (ENT_CALLS, ENT_LAST_LE6, IN_POS, IN_READS) };
    let in_comp = match &c.comp_open_cluster {
        Some(cl) => {
            assert!(opened_compressed(cl), "VERIF: the cluster in the compressed slot was opened as raw");
            assert!(cl.data_size().into_u64() == s);
            true
        }
        None => false,
    };
    let in_raw = match &c.raw_open_cluster {
        Some(cl) => {
            assert!(!opened_compressed(cl), "VERIF: the cluster in the raw slot was opened as compressed");
            assert!(cl.data_size().into_u64() == s);
            true
        }
        None => false,
    };
    assert!(in_comp != in_raw, "VERIF: the content is not in exactly one open cluster");
    assert!(pos == 0, "VERIF: the content's reader was handed to the cluster with its cursor moved (stored bytes would lose their head)");
    if !compressing {
        assert!(in_raw, "VERIF: a pack without compression put a content in a compressed cluster");
        assert!(reads == 0 && calls == 0, "VERIF: a pack without compression sniffed the content");
    } else if which == 1 {
        assert!(in_comp, "VERIF: a content hinted 'compress' in a compressing pack was not put in a compressed cluster");
        assert!(reads == 0 && calls == 0, "VERIF: an explicit hint was second-guessed by the entropy heuristic");
    } else if which == 0 {
        assert!(in_raw, "VERIF: a content hinted 'do not compress' was put in a compressed cluster");
        assert!(reads == 0 && calls == 0, "VERIF: an explicit hint was second-guessed by the entropy heuristic");
    } else if is_symbolic() {
        assert!(calls == 1, "VERIF: Detect did not consult the heuristic exactly once");
        assert!(in_comp == le6, "VERIF: Detect does not follow the heuristic's answer (<= 6.0 bits per byte -> compress)");
    } else {
        // natively: 512 bytes 0..255 twice = 8 bits per byte -> stored raw
        assert!(in_raw, "VERIF: Detect compressed a content of maximal entropy");
    }
}

fn explicit_body(canary: bool) {
    let compressing: bool = kani::any();
    let yes: bool = kani::any();
    match (compressing, yes) {
        (false, false) => sniff_case(false, 0),
        (false, true) => sniff_case(false, 1),
        (true, false) => sniff_case(true, 0),
        (true, true) => sniff_case(true, 1),
    }
    kani::cover!(compressing && yes, "compress");
    kani::cover!(compressing && !yes, "verbatim in a compressing pack");
    if canary {
        assert!(false, "CANARY");
    }
}

vharness! {
    #[kani::unwind(8)]
    #[kani::stub(spmc::Sender::send, crate::creator::content_pack::clusterwriter::verif_c16w::stub_spmc_send)]
    #[kani::stub(std::sync::mpsc::Sender::send, crate::creator::content_pack::clusterwriter::verif_c16w::stub_mpsc_send)]
    #[kani::stub(crate::creator::content_pack::creator::shannon_entropy, crate::creator::content_pack::creator::verif_c16::mon_entropy)]
    fn c16_explicit() { explicit_body(false) }
}
vharness! {
    #[kani::unwind(8)]
    #[kani::stub(spmc::Sender::send, crate::creator::content_pack::clusterwriter::verif_c16w::stub_spmc_send)]
    #[kani::stub(std::sync::mpsc::Sender::send, crate::creator::content_pack::clusterwriter::verif_c16w::stub_mpsc_send)]
    #[kani::stub(crate::creator::content_pack::creator::shannon_entropy, crate::creator::content_pack::creator::verif_c16::mon_entropy)]
    fn c16_canary_explicit() { explicit_body(true) }
}
