// C11 — an unavailable pack is reported as missing, with its description.
// Injected as a child module of `crate::reader::jubako` (sees Container's fields).
#![allow(dead_code, unused_imports, unused_variables)]

use super::Container;
use crate::bases::*;
use crate::common::{ContentAddress, PackInfo, PackKind};
use crate::reader::{MayMissPack, PackLocatorTrait};
use crate::verif_common::*;
use std::sync::{Arc, OnceLock};
use uuid::Uuid;

// @h c11_get_pack | Container::{get_pack,get_bytes,_get_pack,pack_count}; ManifestPack::get_content_pack_info; MayMissPack::{map,get,as_ref,transpose} | a container listing two content packs with symbolic distinct pack ids (1..=3), whose locator finds no pack; the requested pack id (any u16), a content id | an id beyond the table or not listed => Ok(None); a listed id whose pack is not available => Ok(Some(MISSING(info))) with that pack's id, uuid and location, never Err, a panic or bytes; the MayMissPack combinators keep the MISSING variant and its description | 2 listed packs, ids <= 3; container state built by struct literal; FOUND branch outside

struct NoneLocator;
impl PackLocatorTrait for NoneLocator {
    fn locate(&self, _uuid: Uuid, _helper: &str) -> Result<Option<Reader>> {
        Ok(None)
    }
}

fn info(id: u16, tag: u8) -> PackInfo {
    PackInfo {
        uuid: Uuid::from_bytes([tag; 16]), pack_size: Size::new(100 + tag as u64), check_info_pos: SizedOffset::default(), pack_id: PackId::from(id),
        pack_kind: PackKind::Content, pack_group: 0, free_data_id: ValueIdx::from(0u64), pack_location: SmallString::new() }
}

fn stub_source(_raw: crate::reader::ByteStream, _s: ASize) -> Result<Arc<dyn Source>> {
    Err(MissingFeatureError { name: "verif", msg: "decoders are outside the claim" }.into())
}

vharness! {
    #[kani::unwind(8)]
    #[kani::stub(crate::reader::content_pack::cluster::zstd_source, stub_source)]
    #[kani::stub(crate::reader::content_pack::cluster::lz4_source, stub_source)]
    #[kani::stub(crate::reader::content_pack::cluster::lzma_source, stub_source)]
    fn c11_get_pack() {
        let id1: u16 = kani::any();
        let id2: u16 = kani::any();
        kani::assume(id1 >= 1 && id1 <= 3 && id2 >= 1 && id2 <= 3 && id1 != id2);
        let max_id = if id1 > id2 { id1 } else { id2 };
        let img = [0u8; 64];
        let manifest_pack = crate::reader::manifest_pack::verif_c04man::mk_with_packs(Reader::from(img), vec![info(id1, 0xA1), info(id2, 0xB2)], max_id);
        let directory_pack = Arc::new(crate::reader::directory_pack::verif_c04dir::mk(Reader::from(img), 8));
        let value_storage = directory_pack.create_value_storage();
        let entry_storage = directory_pack.create_entry_storage();
        let mut packs = Vec::new();
        packs.resize_with(max_id as usize + 1, OnceLock::default);
        let c = Container { manifest_pack, locator: Arc::new(NoneLocator), directory_pack, value_storage, entry_storage, packs };

        let q: u16 = kani::any();
        let listed = q == id1 || q == id2;
        match c.get_pack(PackId::from(q)) {
            Ok(None) => assert!(!listed, "VERIF: a listed pack was reported as unknown"),
            Ok(Some(MayMissPack::MISSING(pi))) => {
                assert!(listed, "VERIF: an unlisted pack id was reported as a missing pack");
                assert!(pi.pack_id.into_u16() == q, "VERIF: the missing pack's description is another pack's");
                let tag = if q == id1 { 0xA1 } else { 0xB2 };
                assert!(pi.uuid.as_bytes()[0] == tag && pi.pack_size.into_u64() == 100 + tag as u64, "VERIF: the missing pack's description is altered");
                assert!(pi.pack_location.as_str().len() == 0, "VERIF: the missing pack's location is altered");
                std::mem::forget(pi);
            }
            Ok(Some(MayMissPack::FOUND(_))) => assert!(false, "VERIF: an unavailable pack was reported as found"),
            Err(e) => { forget(e); assert!(false, "VERIF: an unavailable pack must be reported as missing, not as an error"); }
        }
        let m: MayMissPack<u8> = MayMissPack::MISSING(info(id1, 0xA1));
        match m.map(|x| x as u32 + 1) {
            MayMissPack::MISSING(pi) => { assert!(pi.pack_id.into_u16() == id1, "VERIF: map lost the pack description"); std::mem::forget(pi); }
            MayMissPack::FOUND(_) => assert!(false, "VERIF: map turned a missing pack into a found one"),
        }
        let m: MayMissPack<u8> = MayMissPack::MISSING(info(id2, 0xB2));
        assert!(m.get().is_none(), "VERIF: get on a missing pack");
        let f: MayMissPack<u8> = MayMissPack::FOUND(7);
        assert!(matches!(f.map(|x| x + 1), MayMissPack::FOUND(8)), "VERIF: map on a found pack");
        kani::cover!(listed && q == id2, "second listed pack missing");
        kani::cover!(!listed && q <= max_id, "hole in the id table");
        kani::cover!(q > max_id, "beyond the table");
        std::mem::forget(c);
    }
}
