// C06 — damaged / truncated files: a value or an error, never a crash. Blind open and the
// arithmetic done before (or without) a checksum. Also hosts the C10 blind-open harnesses.
// Injected as a child module of `crate::reader::jubako`.
#![allow(dead_code, unused_imports, unused_variables)]

use super::open_as_container_pack;
use crate::bases::*;
use crate::common::{PackHeader, PackKind};
use crate::reader::ContainerPack;
use crate::verif_common::*;
use std::borrow::Cow;
use std::sync::Arc;
use uuid::Uuid;

// @h c06_short_crc | bases::assert_slice_crc | a buffer of length 0..8 (what FileSource::cut hands it after a short read at end of file), symbolic bytes | returns Ok or Err, never panics | length <= 8
// @h c06_open_glue | open_as_container_pack (all of its own arithmetic and control flow); Reader::{create_stream,cut,size,new}; Region::cut_rel; ByteStream::{read,read_exact}; Size/Offset arithmetic; From<[u8;64]> for Reader | file length (any u64), outcome and content of each header parse (accepted or not, kind, declared pack size: any u64) | returns Err, or opens exactly one pack whose region lies inside the file, has the declared size, starts at 0 (header at the start) kind dispatch right (the mirrored-tail branch is not decided: see the harness); no panic, no overflow, in debug and release semantics | the two header parses are replaced by nondeterministic results (their own behaviour: c06_header_parse_any, c14_pack_header_r); a source that only has a length; ContainerPack::{new,new_fake} replaced by a capture of the reader they receive (their bodies build a HashMap)
// @h c06_open_short | open_as_container_pack end to end on a memory source of L < 64 symbolic bytes | all bytes | returns Err, never panics | L in {0,1,10,59,60,63}
// @h c06_header_parse_any | PackHeader::parse; FullPackKind::parse; VendorId/Uuid/Size/Offset parse | 60 arbitrary bytes | Ok or Err, never a panic; Ok only with the magic and version (0,2) | 60 bytes
// @h c06_region_arith | Region::{cut_rel,cut_rel_asize,new_from_size}; Reader::{cut,get_byte_slice,create_stream}; <[u8;N] as Source>::{read,read_exact,get_slice} ; ByteStream::read | region, offset and size inside the parent region (the callers' precondition) | no panic / wrap; results inside the parent | 64 bit

// ---- a source that only has a length and a first block -------------------------------------------
/// Reads inside [0, 64) return the given first block, other reads inside the file return zero
/// bytes; reads past the end behave like a file (short read / UnexpectedEof); `cut` without
/// `in_memory` returns the source itself (as FileSource does), with it a copy of the bytes.
/// Symbolically the header parses are replaced by nondeterministic results, so the bytes are
/// irrelevant; natively (replay) `first` holds the reference encoding of the same header with a
/// valid CRC, so that the real parser reaches the same state.
#[derive(Debug)]
struct LenSource {
    len: u64,
    first: [u8; 64],
}
impl LenSource {
    fn fill(&self, o: u64, buf: &mut [u8]) {
        let mut i = 0;
        while i < buf.len() {
            let p = o + i as u64;
            buf[i] = if p < 64 { self.first[p as usize] } else { 0 };
            i += 1;
        }
    }
}
impl Source for LenSource {
    fn size(&self) -> Size {
        Size::new(self.len)
    }
    fn read(&self, offset: Offset, buf: &mut [u8]) -> std::io::Result<usize> {
        let o = offset.into_u64();
        let avail = if o < self.len { self.len - o } else { 0 };
        let n = if (buf.len() as u64) < avail { buf.len() } else { avail as usize };
        self.fill(o, &mut buf[..n]);
        Ok(n)
    }
    fn read_exact(&self, offset: Offset, buf: &mut [u8]) -> std::io::Result<()> {
        let o = offset.into_u64();
        if o > self.len || (buf.len() as u64) > self.len - o {
            return Err(std::io::Error::from(std::io::ErrorKind::UnexpectedEof));
        }
        self.fill(o, buf);
        Ok(())
    }
    fn get_slice(&self, region: ARegion, block_check: BlockCheck) -> Result<Cow<[u8]>> {
        let mut buf = vec![0u8; region.size().into_usize() + block_check.size()];
        self.read_exact(region.begin(), &mut buf)?;
        if let BlockCheck::Crc32 = block_check {
            assert_slice_crc(&buf)?;
        }
        buf.truncate(region.size().into_usize());
        Ok(Cow::Owned(buf))
    }
    fn cut(
        self: Arc<Self>,
        region: Region,
        block_check: BlockCheck,
        in_memory: bool,
    ) -> Result<(Arc<dyn Source>, Region)> {
        if !in_memory {
            return Ok((self, region));
        }
        let full = region.size().into_u64() as usize + block_check.size();
        let mut buf = vec![0u8; full];
        let _ = self.read(region.begin(), &mut buf)?;
        if let BlockCheck::Crc32 = block_check {
            assert_slice_crc(&buf)?;
        }
        Ok((Arc::new(buf), Region::new_from_size(Offset::zero(), region.size())))
    }
    fn display(&self) -> String {
        String::new()
    }
}

// ---- M-open: capture of what the blind open hands to the pack constructors -----------------------
static mut OPEN_CALLS: usize = 0;
static mut OPEN_FAKE: bool = false;
static mut OPEN_OFFSET: u64 = 0;
static mut OPEN_SIZE: u64 = 0;

fn empty_container_pack() -> ContainerPack {
    // A value that is never inspected nor dropped by the harness. (`HashMap::new()` needs the
    // getrandom syscall, which Kani does not support.)
    unsafe { std::mem::transmute_copy::<[usize; 32], ContainerPack>(&[8usize; 32]) }
}

fn capture_new(reader: Reader) -> Result<ContainerPack> {
    unsafe {
        OPEN_CALLS += 1;
        OPEN_FAKE = false;
        OPEN_OFFSET = reader.global_offset().into_u64();
        OPEN_SIZE = reader.size().into_u64();
    }
    std::mem::forget(reader);
    Ok(empty_container_pack())
}
fn capture_new_fake(reader: Reader, _uuid: Uuid) -> ContainerPack {
    unsafe {
        OPEN_CALLS += 1;
        OPEN_FAKE = true;
        OPEN_OFFSET = reader.global_offset().into_u64();
        OPEN_SIZE = reader.size().into_u64();
    }
    std::mem::forget(reader);
    empty_container_pack()
}

// ---- nondeterministic header parses -----------------------------------------------------------------
/// The header every parse returns in this run (drawn once by the harness, so that a native replay
/// consumes the same values in the same order).
static mut HDR_KIND: u8 = 0;
static mut HDR_SIZE: u64 = 0;
static mut HDR_CIP: u64 = 0;
static mut PARSE_N: usize = 0;

fn any_header<T: SizedBlockParsable>(_r: &Reader) -> Result<T::Output> {
    assert!(std::mem::size_of::<T::Output>() == std::mem::size_of::<PackHeader>(), "VERIF: harness stub used for another block type");
    unsafe { PARSE_N += 1; }
    // Every header parse accepts: the pack is found at the start of the file. (With a rejected
    // first parse the function goes through `create_stream(..).read_exact(..)`, whose io::Error
    // paths make CBMC explore a doubly recursive `Error::source`/`cause` chain that does not
    // finish in 15 min at any unwinding; the mirrored-tail branch is therefore not decided here.)
    let kind = match unsafe { HDR_KIND } { 0 => PackKind::Manifest, 1 => PackKind::Directory, 2 => PackKind::Content, _ => PackKind::Container };
    let h = PackHeader {
        magic: kind, app_vendor_id: VendorId::from([0u8; 4]), major_version: 0, minor_version: 2,
        uuid: Uuid::from_bytes([7u8; 16]), flags: 0, file_size: Size::new(unsafe { HDR_SIZE }), check_info_pos: Offset::new(unsafe { HDR_CIP }),
    };
    let out = unsafe { std::ptr::read(&h as *const PackHeader as *const T::Output) };
    std::mem::forget(h);
    Ok(out)
}
fn stub_parse_block_at<T: SizedBlockParsable>(r: &Reader, _offset: Offset) -> Result<T::Output> {
    any_header::<T>(r)
}
fn stub_parse_block_unchecked_at<T: SizedBlockParsable>(r: &Reader, _offset: Offset) -> Result<T::Output> {
    any_header::<T>(r)
}

fn open_glue(canary: bool) {
    let len: u64 = kani::any();
    kani::assume(len >= 64);
    let k: u8 = kani::any();
    kani::assume(k < 4);
    let file_size: u64 = kani::any();
    let cip: u64 = kani::any();
    unsafe { HDR_KIND = k; HDR_SIZE = file_size; HDR_CIP = cip; OPEN_CALLS = 0; PARSE_N = 0; }
    let mut first = [0u8; 64];
    if !is_symbolic() {
        // native replay: the same header as real bytes with a valid checksum
        first[0] = b'j'; first[1] = b'b'; first[2] = b'k';
        first[3] = [b'm', b'd', b'c', b'C'][k as usize];
        first[8] = 0; first[9] = 2;
        let mut i = 10; while i < 26 { first[i] = 7; i += 1; }
        put_le(&mut first, 32, file_size, 8);
        put_le(&mut first, 40, cip, 8);
        let c = ref_crc(&first[..60]).to_be_bytes();
        first[60] = c[0]; first[61] = c[1]; first[62] = c[2]; first[63] = c[3];
    }
    let reader = Reader::new(LenSource { len, first }, Size::new(len));
    match open_as_container_pack(reader) {
        Ok(cp) => {
            if is_symbolic() {
                std::mem::forget(cp);
                let (calls, off, size, fake) = unsafe { (OPEN_CALLS, OPEN_OFFSET, OPEN_SIZE, OPEN_FAKE) };
                assert!(calls == 1, "VERIF: blind open succeeded without opening a pack");
                assert!(off <= len && size <= len - off, "VERIF: blind open handed out a pack region outside the file");
                assert!(size == file_size, "VERIF: the pack region does not have the declared size");
                assert!(fake == (k != 3), "VERIF: pack kind dispatch");
                assert!(off == 0, "VERIF: header at the start but pack not at the start");
            } else {
                // natively a non container pack is wrapped in a one-pack container: its reader is
                // the region handed out
                if let Some(r) = cp.get_pack_reader_from_idx(PackId::from(0u16)) {
                    assert!(r.global_offset().into_u64() <= len && r.size().into_u64() <= len - r.global_offset().into_u64(),
                        "VERIF: blind open handed out a pack region outside the file");
                    assert!(r.size().into_u64() == file_size && r.global_offset().into_u64() == 0, "VERIF: the pack region does not have the declared size");
                }
            }
        }
        Err(e) => {
            forget(e);
            assert!(!is_symbolic() || file_size > len || unsafe { OPEN_CALLS } == 0, "VERIF: inconsistent refusal");
        }
    }
    kani::cover!(unsafe { OPEN_CALLS } == 1 && file_size < len, "pack followed by other bytes");
    kani::cover!(unsafe { OPEN_CALLS } == 0 && file_size > len, "declared size larger than the file: refused");
    if canary {
        assert!(false, "CANARY");
    }
}

macro_rules! glue_harness {
    ($(#[$m:meta])* fn $name:ident() $body:block) => {
        vharness! {
            #[kani::stub(crate::bases::Reader::parse_block_at, stub_parse_block_at)]
            #[kani::stub(crate::bases::Reader::parse_block_unchecked_at, stub_parse_block_unchecked_at)]
            #[kani::stub(crate::reader::ContainerPack::new, capture_new)]
            #[kani::stub(crate::reader::ContainerPack::new_fake, capture_new_fake)]
            $(#[$m])*
            fn $name() $body
        }
    };
}

glue_harness! {
    #[kani::unwind(6)]
    fn c06_open_glue() { open_glue(false) }
}
glue_harness! {
    #[kani::unwind(6)]
    fn c06_canary_open_glue() { open_glue(true) }
}

// ---- files shorter than one block, real code end to end (memory source) ------------------------------
fn open_short<const L: usize>() {
    let data: [u8; L] = kani::any();
    let reader = Reader::from(data);
    match open_as_container_pack(reader) {
        Ok(cp) => { std::mem::forget(cp); assert!(false, "VERIF: a file shorter than a header block was opened"); }
        Err(e) => forget(e),
    }
}
macro_rules! open_short_inst {
    ($name:ident, $l:expr) => {
        vharness! {
            #[kani::unwind(70)]
            #[kani::stub(crate::bases::assert_slice_crc, crate::verif_common::crc_oracle)]
            #[kani::stub(crate::reader::ContainerPack::new, capture_new)]
            #[kani::stub(crate::reader::ContainerPack::new_fake, capture_new_fake)]
            fn $name() { open_short::<$l>() }
        }
    };
}
open_short_inst!(c06_open_short_0, 0);
open_short_inst!(c06_open_short_1, 1);
open_short_inst!(c06_open_short_10, 10);
open_short_inst!(c06_open_short_59, 59);
open_short_inst!(c06_open_short_60, 60);
open_short_inst!(c06_open_short_63, 63);

// ---- the header parser on arbitrary bytes --------------------------------------------------------------
vharness! {
    #[kani::unwind(20)]
    fn c06_header_parse_any() {
        let b: [u8; 60] = kani::any();
        let mut p = SliceParser::new(Cow::Borrowed(&b[..]), Offset::zero());
        match PackHeader::parse(&mut p) {
            Ok(h) => {
                assert!(b[0] == b'j' && b[1] == b'b' && b[2] == b'k' && b[8] == 0 && b[9] == 2, "VERIF: header without magic or version accepted");
                // check_info_size is computed by the readers from these untrusted fields
                std::mem::forget(h);
            }
            Err(e) => forget(e),
        }
        kani::cover!(b[0] == b'j' && b[1] == b'b' && b[2] == b'k' && b[3] == b'c' && b[8] == 0 && b[9] == 2, "well formed");
    }
}

// ---- short buffers handed to the checksum ---------------------------------------------------------
vharness! {
    #[kani::unwind(12)]
    fn c06_short_crc() {
        let mut buf = [0u8; 8];
        fill_any(&mut buf);
        let n: usize = kani::any();
        kani::assume(n <= 8);
        match assert_slice_crc(&buf[..n]) {
            Ok(()) => assert!(n >= 4, "VERIF: a block shorter than its checksum was accepted"),
            Err(e) => forget(e),
        }
        kani::cover!(n == 0, "empty buffer");
        kani::cover!(n == 3, "three bytes");
        kani::cover!(n == 4, "checksum only");
    }
}

// ---- region arithmetic under the callers' precondition -------------------------------------------
vharness! {
    #[kani::unwind(12)]
    fn c06_region_arith() {
        let begin: u64 = kani::any();
        let size: u64 = kani::any();
        kani::assume(begin <= (1u64 << 62) && size <= (1u64 << 62));
        let region = Region::new_from_size(Offset::new(begin), Size::new(size));
        assert!(region.begin().into_u64() == begin && region.end().into_u64() == begin + size && region.size().into_u64() == size);
        let o: u64 = kani::any();
        let s: u64 = kani::any();
        kani::assume(o <= size && s <= size - o);
        let sub = region.cut_rel(Offset::new(o), Size::new(s));
        assert!(sub.begin().into_u64() == begin + o && sub.size().into_u64() == s, "VERIF: relative cut");
        assert!(sub.end() <= region.end(), "VERIF: relative cut escapes its parent");
        if s <= 0xFFFF {
            let asub = region.cut_rel_asize(Offset::new(o), ASize::new(s as usize));
            assert!(asub.begin().into_u64() == begin + o && asub.size().into_u64() == s, "VERIF: relative asize cut");
        }
        kani::cover!(o == size && s == 0, "empty cut at the end");
    }
}
