// C02 (writer side) — column widths, defaults, entry serialisation, layout property encoding,
// variant padding, index tail, tail size.
// Injected as a child module of `crate::creator::directory_pack`.
#![allow(dead_code, unused_imports, unused_variables)]

use super::layout;
use super::schema;
use super::value_store::verif_c02vs::{indexed_store_of_count, plain_store_of_size, resolved_handle};
use super::{Array, ArrayS, EntryTrait, Index, Value};
use crate::bases::*;
use crate::common::ContentAddress;
use crate::creator::private::WritableTell;
use crate::verif_common::*;

type PN = &'static str;
type VN = &'static str;

// @h c02_uint_width | schema::Property::{new_uint,process,finalize}; PropertySize<u64>::process; ValueCounter::process; needed_bytes; layout::Property::size; layout::Properties::serialize_entry (UnsignedInt arm); monitor on Serializer::write_usized | two values processed by the column, either one written | the value written fits the width chosen (no truncation); constant column <=> default == that value and 0 bytes per entry | two values, 64 bit
// @h c02_sint_width | same for SignedInt: PropertySize<i64>, layout SignedInt arm; monitor on Serializer::write_isized | two values of both signs | -2^(8n-1) <= v < 2^(8n-1) for the chosen n | two values, 64 bit
// @h c02_content_width | schema::Property::{new_content_address,process,finalize}; serialize_entry ContentAddress arm; monitor on write_usized | two content addresses (pack id u16, content id u32), either written | no truncation; constant pack id <=> default pack id | two values
// @h c02_array_width | schema::Property::{new_array,process,finalize}; PropertySize<usize>; StoreHandle::key_size; serialize_entry Array / IndirectArray arms; monitor on write_usized | array length (<= 0xFFFFFF), value id within the store's invariant, store size / count | the length and the value id fit the widths chosen | plain and indexed stores
// @h c02_indirect_width | schema::Property::new_array (fixed length 0 on an indexed store); Property::finalize; StoreHandle::key_size; serialize_entry IndirectArray arm; monitor on write_usized | value count of the store (<= 70000), a value id below it | such a column is an IndirectArray; its id fits the key width (<= 7 bytes) | count <= 70000
// @h c02_entry_indirect_bytes | serialize_entry IndirectArray arm and Array arm without length/prefix | value id, key width 1..7 | writes == [value id (W LE)] | W 1..7
// @h c02_entry_int_bytes | serialize_entry UnsignedInt / SignedInt arms; Serializer::{write_usized,write_isized} | value, width W (concrete per call, case split 1..8) | bytes == little endian two's complement of the value on W bytes | W 1..8
// @h c02_entry_content_bytes | serialize_entry ContentAddress arm | pack id, content id, widths (case split), default or not | bytes == [pack id (W1 LE) unless default][content id (W2 LE)] | all 8 width pairs
// @h c02_entry_array_bytes | serialize_entry Array arms (Array0/1/2/Array) and IndirectArray | array length, inline prefix (0..3 bytes of a 0..3 byte fixed part), value id, widths | bytes == [len (Wl LE)][prefix, zero padded to the fixed length][value id (Wk LE)] | fixed length <= 3, prefix <= fixed length
// @h c02_entry_variant | serialize_entry VariantId + Padding arms | variant index, padding size | one byte variant index; padding is zero bytes of its size | u8
// @h c02_layout_prop_writer | layout::Property::serialize (all kinds); PString::serialize_string | per kind: sizes, default flags and values, fixed array length 0..31, key size, store index | bytes == reference encoding of the property definition (nibble layout written in the harness from the pinned format) | one property, name of 1 byte
// @h c02_padding | layout::Properties::{entry_size,fill_to_size}; layout::Property::size | a variant of 5 bytes padded by a symbolic amount | afterwards entry_size == target, every padding added is 1..=16 bytes | padding amount <= 70 (5 padding properties)
// @h c02_index_tail | Index::serialize_tail (creator); WritableTell::write | store id, count, offset, free data, index key | tail bytes == [store id u32][count u32][offset u32][free data 4][key u8][name pstring]; returned SizedOffset = (tail length, position) | name 2 bytes
// @h c02_tail_size | WritableTell::write (default method) | a a tail of n bytes, n symbolic <= 100000, written at a symbolic position | the returned SizedOffset survives its 16 bit size field, or write fails: never a silently truncated size | n <= 100000; counting stream; tail bytes not materialised; Serializer::close without CRC

struct One {
    v: Value,
}
impl EntryTrait<PN, VN> for One {
    fn variant_name(&self) -> Option<MayRef<VN>> {
        None
    }
    fn value<'a>(&'a self, _name: &PN) -> MayRef<'a, Value> {
        MayRef::Borrowed(&self.v)
    }
    fn value_count(&self) -> PropertyCount {
        1u8.into()
    }
    fn set_idx(&mut self, _idx: EntryIdx) {}
    fn get_idx(&self) -> Bound<EntryIdx> {
        Vow::new(EntryIdx::from(0)).bind()
    }
}

fn ser_one(prop: &layout::Property<PN>, v: Value, variant: Option<VariantIdx>) -> Option<Vec<u8>> {
    log_reset();
    let mut ser = Serializer::new(BlockCheck::None);
    let e = One { v };
    let r = layout::Properties::<PN>::serialize_entry::<VN>(
        std::slice::from_ref(prop).iter(),
        variant,
        &e,
        &mut ser,
    );
    std::mem::forget(e);
    match r {
        Ok(n) => {
            let (buf, _) = ser.close();
            assert!(n == prop.size() as usize, "VERIF: bytes written for a property differ from its declared entry size");
            assert!(is_symbolic() || buf.len() == n, "VERIF: written count differs from bytes");
            Some(buf)
        }
        Err(e) => {
            forget(e);
            None
        }
    }
}

// ---- widths (monitors) -------------------------------------------------------------------------
fn fits_u(v: u64, w: usize) -> bool {
    w >= 8 || v < (1u64 << (8 * w))
}
fn fits_i(v: i64, w: usize) -> bool {
    w >= 8 || (v >= -(1i64 << (8 * w - 1)) && v < (1i64 << (8 * w - 1)))
}

fn uint_width(canary: bool) {
    let v1: u64 = kani::any();
    let v2: u64 = kani::any();
    let mut p = schema::Property::<PN>::new_uint("p");
    p.process::<VN>(&One { v: Value::Unsigned(v1) });
    p.process::<VN>(&One { v: Value::Unsigned(v2) });
    let lp = p.finalize();
    let v = if kani::any() { v1 } else { v2 };
    match &lp {
        layout::Property::UnsignedInt { size, default, .. } => {
            assert!(default.is_some() == (v1 == v2), "VERIF: default iff constant column");
            if let Some(d) = default {
                assert!(*d == v1, "VERIF: default value");
                assert!(lp.size() == 0, "VERIF: constant column takes no entry bytes");
            } else {
                assert!(lp.size() as usize == *size as usize);
            }
            if !is_symbolic() {
                assert!(fits_u(v, *size as usize), "VERIF: unsigned value does not fit the width chosen by the writer");
            }
        }
        _ => assert!(false, "VERIF: wrong layout kind"),
    }
    match ser_one(&lp, Value::Unsigned(v), None) {
        Some(buf) => {
            if !is_symbolic() {
                assert!(buf.len() == lp.size() as usize);
                if buf.len() > 0 {
                    assert!(ref_le_uint(&buf, buf.len()) == v, "VERIF: unsigned value does not read back");
                }
            }
            std::mem::forget(buf);
        }
        None => assert!(false, "VERIF: serialize_entry failed"),
    }
    kani::cover!(v1 != v2 && v > 0xFFFF_FFFF, "wide varying column");
    kani::cover!(v1 == v2, "constant column");
    if canary {
        assert!(false, "CANARY");
    }
}

wharness! {
    #[kani::unwind(10)]
    fn c02_uint_width() { uint_width(false) }
}
wharness! {
    #[kani::unwind(10)]
    fn c02_canary_uint_width() { uint_width(true) }
}

wharness! {
    #[kani::unwind(10)]
    fn c02_sint_width() {
        let v1: i64 = kani::any();
        let v2: i64 = kani::any();
        let mut p = schema::Property::<PN>::new_sint("p");
        p.process::<VN>(&One { v: Value::Signed(v1) });
        p.process::<VN>(&One { v: Value::Signed(v2) });
        let lp = p.finalize();
        let v = if kani::any() { v1 } else { v2 };
        match &lp {
            layout::Property::SignedInt { size, default, .. } => {
                assert!(default.is_some() == (v1 == v2), "VERIF: default iff constant column");
                if let Some(d) = default {
                    assert!(*d == v1, "VERIF: default value");
                    assert!(lp.size() == 0);
                }
                if !is_symbolic() {
                    assert!(fits_i(v, *size as usize), "VERIF: signed value does not fit the width chosen by the writer");
                }
            }
            _ => assert!(false, "VERIF: wrong layout kind"),
        }
        match ser_one(&lp, Value::Signed(v), None) {
            Some(buf) => {
                if !is_symbolic() && buf.len() > 0 {
                    assert!(ref_le_int(&buf, buf.len()) == v, "VERIF: signed value does not read back");
                }
                std::mem::forget(buf);
            }
            None => assert!(false, "VERIF: serialize_entry failed"),
        }
        kani::cover!(v1 != v2 && v < -70000, "negative wide");
        kani::cover!(v1 != v2 && v == 200, "positive needing the sign bit");
    }
}

wharness! {
    #[kani::unwind(10)]
    fn c02_content_width() {
        let p1: u16 = kani::any();
        let c1: u32 = kani::any();
        let p2: u16 = kani::any();
        let c2: u32 = kani::any();
        let mut p = schema::Property::<PN>::new_content_address("p");
        p.process::<VN>(&One { v: Value::Content(ContentAddress::new(p1.into(), c1.into())) });
        p.process::<VN>(&One { v: Value::Content(ContentAddress::new(p2.into(), c2.into())) });
        let lp = p.finalize();
        let first: bool = kani::any();
        let (pv, cv) = if first { (p1, c1) } else { (p2, c2) };
        match &lp {
            layout::Property::ContentAddress { content_id_size, pack_id_size, default, .. } => {
                assert!(default.is_some() == (p1 == p2), "VERIF: default pack id iff constant");
                if let Some(d) = default {
                    assert!(*d == p1, "VERIF: default pack id value");
                }
                assert!((*pack_id_size as usize) <= 2 && (*content_id_size as usize) <= 4, "VERIF: content address widths must fit their nibble");
                if !is_symbolic() {
                    assert!(fits_u(cv as u64, *content_id_size as usize), "VERIF: unsigned value does not fit the width chosen by the writer");
                    assert!(fits_u(pv as u64, *pack_id_size as usize), "VERIF: unsigned value does not fit the width chosen by the writer");
                }
            }
            _ => assert!(false, "VERIF: wrong layout kind"),
        }
        match ser_one(&lp, Value::Content(ContentAddress::new(pv.into(), cv.into())), None) {
            Some(buf) => std::mem::forget(buf),
            None => assert!(false, "VERIF: serialize_entry failed"),
        }
        kani::cover!(p1 != p2 && pv > 255 && cv > 0xFFFFFF, "widest address");
        kani::cover!(p1 == p2, "constant pack id");
    }
}

fn array_width(indexed: bool) {
    let len1: usize = kani::any();
    let len2: usize = kani::any();
    kani::assume(len1 <= 0x00FF_FFFF && len2 <= 0x00FF_FFFF);
    let id: u64 = kani::any();
    let store = if indexed {
        let count: usize = kani::any();
        kani::assume(count <= 70000);
        kani::assume(id < count as u64);
        indexed_store_of_count(count, 70000, 3)
    } else {
        let size: u64 = kani::any();
        // a plain value store of 2^56 bytes or more is outside the claim (key width is 3 bits)
        kani::assume(size < (1u64 << 56));
        kani::assume(id <= size);
        plain_store_of_size(size, 3)
    };
    let fixed: usize = if kani::any() { 1 } else { 2 };
    let mut p = schema::Property::<PN>::new_array(fixed, store.clone(), "p");
    let mk = |len: usize| Value::Array1(Box::new(ArrayS::<1> { data: [7], value_id: resolved_handle(id), size: len }));
    p.process::<VN>(&One { v: mk(len1) });
    p.process::<VN>(&One { v: mk(len2) });
    let lp = p.finalize();
    let len = if kani::any() { len1 } else { len2 };
    kani::assume(len >= 1);
    match &lp {
        layout::Property::Array { array_len_size, fixed_array_len, deported_info, .. } => {
            assert!(*fixed_array_len as usize == fixed);
            match array_len_size {
                Some(s) => {
                    assert!((*s as usize) <= 3, "VERIF: array length width must fit 2 bits");
                    if !is_symbolic() {
                        assert!(fits_u(len as u64, *s as usize), "VERIF: unsigned value does not fit the width chosen by the writer");
                    }
                }
                None => assert!(false, "VERIF: array length width missing"),
            }
            match deported_info {
                Some((k, _)) => {
                    assert!((*k as usize) <= 7, "VERIF: key width must fit 3 bits");
                    if !is_symbolic() {
                        assert!(fits_u(id, *k as usize), "VERIF: unsigned value does not fit the width chosen by the writer");
                    }
                }
                None => assert!(false, "VERIF: deported info missing"),
            }
        }
        _ => assert!(false, "VERIF: wrong layout kind"),
    }
    match ser_one(&lp, mk(len), None) {
        Some(buf) => std::mem::forget(buf),
        None => assert!(false, "VERIF: serialize_entry failed"),
    }
    kani::cover!(len > 65535, "3 byte length");
    kani::cover!(id > 255, "2 byte id");
    std::mem::forget(lp);
    std::mem::forget(store);
}

wharness! {
    #[kani::unwind(10)]
    fn c02_array_width_plain() { array_width(false) }
}
wharness! {
    #[kani::unwind(10)]
    fn c02_array_width_indexed() { array_width(true) }
}

wharness! {
    #[kani::unwind(10)]
    fn c02_indirect_width() {
        let count: usize = kani::any();
        kani::assume(count <= 70000);
        let id: u64 = kani::any();
        kani::assume(id < count as u64);
        let store = indexed_store_of_count(count, 70000, 3);
        // fixed length 0 on an indexed store: indirect array
        let p = schema::Property::<PN>::new_array(0, store.clone(), "p");
        let lp = p.finalize();
        match &lp {
            layout::Property::IndirectArray { value_id_size, .. } => {
                assert!((*value_id_size as usize) <= 7, "VERIF: key width must fit 3 bits");
                if !is_symbolic() {
                    assert!(fits_u(id, *value_id_size as usize), "VERIF: unsigned value does not fit the width chosen by the writer");
                }
            }
            _ => assert!(false, "VERIF: fixed length 0 on an indexed store must be an indirect array"),
        }
        match ser_one(&lp, Value::IndirectArray(Box::new(resolved_handle(id))), None) {
            Some(buf) => std::mem::forget(buf),
            None => assert!(false, "VERIF: serialize_entry failed"),
        }
        kani::cover!(id > 65535, "3 byte id");
        std::mem::forget(lp);
        std::mem::forget(store);
    }
}

// ---- entry bytes vs reference -------------------------------------------------------------------
fn any_width(lo: usize, hi: usize) -> usize {
    let w: usize = kani::any();
    kani::assume(w >= lo && w <= hi);
    w
}

wharness! {
    #[kani::unwind(10)]
    fn c02_entry_int_bytes() {
        let w = any_width(1, 8);
        let signed: bool = kani::any();
        if signed {
            let v: i64 = kani::any();
            kani::assume(fits_i(v, w));
            let lp = layout::Property::<PN>::SignedInt { size: byte_size(w), default: None, name: "p" };
            match ser_one(&lp, Value::Signed(v), None) {
                Some(buf) => { expect_writes(&[wi(v, w)], &buf); std::mem::forget(buf); }
                None => assert!(false, "VERIF: serialize_entry failed"),
            }
            match ser_one(&lp, Value::SignedWord(Box::new(v.into())), None) {
                Some(buf) => { expect_writes(&[wi(v, w)], &buf); std::mem::forget(buf); }
                None => assert!(false, "VERIF: serialize_entry failed"),
            }
            // constant column: nothing is written
            let lp = layout::Property::<PN>::SignedInt { size: byte_size(w), default: Some(v), name: "p" };
            match ser_one(&lp, Value::Signed(v), None) {
                Some(buf) => { expect_writes(&[], &buf); std::mem::forget(buf); }
                None => assert!(false, "VERIF: serialize_entry failed"),
            }
        } else {
            let v: u64 = kani::any();
            kani::assume(fits_u(v, w));
            let lp = layout::Property::<PN>::UnsignedInt { size: byte_size(w), default: None, name: "p" };
            match ser_one(&lp, Value::Unsigned(v), None) {
                Some(buf) => { expect_writes(&[wu(v, w)], &buf); std::mem::forget(buf); }
                None => assert!(false, "VERIF: serialize_entry failed"),
            }
            match ser_one(&lp, Value::UnsignedWord(Box::new(v.into())), None) {
                Some(buf) => { expect_writes(&[wu(v, w)], &buf); std::mem::forget(buf); }
                None => assert!(false, "VERIF: serialize_entry failed"),
            }
            let lp = layout::Property::<PN>::UnsignedInt { size: byte_size(w), default: Some(v), name: "p" };
            match ser_one(&lp, Value::Unsigned(v), None) {
                Some(buf) => { expect_writes(&[], &buf); std::mem::forget(buf); }
                None => assert!(false, "VERIF: serialize_entry failed"),
            }
        }
        kani::cover!(w == 3 && signed, "3 byte signed");
        kani::cover!(w == 8 && !signed, "8 byte unsigned");
    }
}

wharness! {
    #[kani::unwind(10)]
    fn c02_entry_content_bytes() {
        let wp = any_width(1, 2);
        let wc = any_width(1, 4);
        let with_default: bool = kani::any();
        let pv: u16 = kani::any();
        let cv: u32 = kani::any();
        kani::assume(fits_u(pv as u64, wp) && fits_u(cv as u64, wc));
        let lp = layout::Property::<PN>::ContentAddress {
            content_id_size: byte_size(wc),
            pack_id_size: byte_size(wp),
            default: if with_default { Some(pv) } else { None },
            name: "p",
        };
        let v = Value::Content(ContentAddress::new(pv.into(), cv.into()));
        match ser_one(&lp, v, None) {
            Some(buf) => {
                if with_default {
                    expect_writes(&[wu(cv as u64, wc)], &buf);
                } else {
                    expect_writes(&[wu(pv as u64, wp), wu(cv as u64, wc)], &buf);
                }
                std::mem::forget(buf);
            }
            None => assert!(false, "VERIF: serialize_entry failed"),
        }
        kani::cover!(with_default && wc == 4, "default pack id, 4 byte content id");
        kani::cover!(!with_default && wp == 2 && wc == 3, "2 byte pack id, 3 byte content id");
    }
}

/// fixed: fixed array length of the column; plen: bytes of this value stored inline (<= fixed)
fn entry_array(fixed: usize, plen: usize) {
    let wl = any_width(1, 3);
    let wk = any_width(1, 7);
    let len: usize = kani::any();
    kani::assume(fits_u(len as u64, wl) && len >= plen);
    // when the value is shorter than the fixed part, all of it is inline
    kani::assume(plen == fixed || len == plen);
    let id: u64 = kani::any();
    kani::assume(fits_u(id, wk));
    let pre: [u8; 3] = [kani::any(), kani::any(), kani::any()];
    let store = plain_store_of_size(0, 5);
    let lp = layout::Property::<PN>::Array {
        array_len_size: Some(byte_size(wl)),
        fixed_array_len: fixed as u8,
        deported_info: Some((byte_size(wk), store.clone())),
        name: "p",
    };
    let v = match plen {
        0 => Value::Array0(Box::new(ArrayS::<0> { data: [], value_id: resolved_handle(id), size: len })),
        1 => Value::Array1(Box::new(ArrayS::<1> { data: [pre[0]], value_id: resolved_handle(id), size: len })),
        2 => Value::Array2(Box::new(ArrayS::<2> { data: [pre[0], pre[1]], value_id: resolved_handle(id), size: len })),
        _ => Value::Array(Box::new(Array { size: len, data: Box::new([pre[0], pre[1], pre[2]]), value_id: resolved_handle(id) })),
    };
    let mut pv: u64 = 0;
    let mut i = 0;
    while i < plen {
        pv |= (pre[i] as u64) << (8 * i);
        i += 1;
    }
    assert!(lp.size() as usize == wl + fixed + wk, "VERIF: array entry size");
    match ser_one(&lp, v, None) {
        Some(buf) => {
            expect_writes(&[wu(len as u64, wl), wd(pv, plen), wd(0, fixed - plen), wu(id, wk)], &buf);
            std::mem::forget(buf);
        }
        None => assert!(false, "VERIF: serialize_entry failed"),
    }
    kani::cover!(wl == 3 && wk == 7, "widest");
    std::mem::forget(lp);
    std::mem::forget(store);
}

wharness! {
    #[kani::unwind(12)]
    fn c02_entry_array_bytes() {
        let k: u8 = kani::any();
        kani::assume(k < 7);
        match k {
            0 => entry_array(0, 0),
            1 => entry_array(1, 1),
            2 => entry_array(2, 2),
            3 => entry_array(3, 3),
            4 => entry_array(3, 1),   // value shorter than the fixed part: zero padded
            5 => entry_array(2, 0),   // empty value
            _ => entry_array(3, 2),
        }
        kani::cover!(k == 4, "short value padded");
        kani::cover!(k == 3, "Array variant");
    }
}

wharness! {
    #[kani::unwind(12)]
    fn c02_entry_indirect_bytes() {
        let w = any_width(1, 7);
        let id: u64 = kani::any();
        kani::assume(fits_u(id, w));
        let store = indexed_store_of_count(0, 1, 5);
        let lp = layout::Property::<PN>::IndirectArray { value_id_size: byte_size(w), store_handle: store.clone(), name: "p" };
        assert!(lp.size() as usize == w);
        match ser_one(&lp, Value::IndirectArray(Box::new(resolved_handle(id))), None) {
            Some(buf) => { expect_writes(&[wu(id, w)], &buf); std::mem::forget(buf); }
            None => assert!(false, "VERIF: serialize_entry failed"),
        }
        // the same value through an Array column without length and prefix
        let lp2 = layout::Property::<PN>::Array { array_len_size: None, fixed_array_len: 0,
            deported_info: Some((byte_size(w), store.clone())), name: "p" };
        match ser_one(&lp2, Value::IndirectArray(Box::new(resolved_handle(id))), None) {
            Some(buf) => { expect_writes(&[wu(id, w)], &buf); std::mem::forget(buf); }
            None => assert!(false, "VERIF: serialize_entry failed"),
        }
        kani::cover!(w == 7, "7 byte id");
        std::mem::forget(lp);
        std::mem::forget(lp2);
        std::mem::forget(store);
    }
}

wharness! {
    #[kani::unwind(20)]
    fn c02_entry_variant() {
        let vid: u8 = kani::any();
        let lp = layout::Property::<PN>::VariantId("v");
        assert!(lp.size() == 1);
        match ser_one(&lp, Value::Unsigned(0), Some(VariantIdx::from(vid))) {
            Some(buf) => { expect_writes(&[wu(vid as u64, 1)], &buf); std::mem::forget(buf); }
            None => assert!(false, "VERIF: serialize_entry failed"),
        }
        let ps: u8 = kani::any();
        kani::assume(ps >= 1 && ps <= 16);
        let lp = layout::Property::<PN>::Padding(ps);
        assert!(lp.size() == ps as u16);
        match ser_one(&lp, Value::Unsigned(0), None) {
            Some(buf) => { expect_writes(&[wd(0, ps as usize)], &buf); std::mem::forget(buf); }
            None => assert!(false, "VERIF: serialize_entry failed"),
        }
        kani::cover!(ps == 16 && vid == 255, "extremes");
    }
}

// ---- layout property definitions vs reference --------------------------------------------------
fn ser_prop(p: &layout::Property<PN>) -> Option<Vec<u8>> {
    log_reset();
    let mut ser = Serializer::new(BlockCheck::None);
    match p.serialize(&mut ser) {
        Ok(n) => {
            let (buf, _) = ser.close();
            assert!(is_symbolic() || buf.len() == n, "VERIF: written count differs from bytes");
            Some(buf)
        }
        Err(e) => { forget(e); None }
    }
}

fn check_def(p: &layout::Property<PN>, exp: &[W]) {
    match ser_prop(p) {
        Some(buf) => { expect_writes(exp, &buf); std::mem::forget(buf); }
        None => assert!(false, "VERIF: property serialize failed"),
    }
}

/// a one byte name "p" as a PString: length byte then the byte
const NAME_LEN: W = W(1, 1, [1, 0, 0, 0]);
const NAME_P: W = W(3, 1, [b'p' as u64, 0, 0, 0]);

wharness! {
    #[kani::unwind(14)]
    fn c02_layout_prop_writer_int() {
        let w = any_width(1, 8);
        let signed: bool = kani::any();
        let with_default: bool = kani::any();
        let base = if signed { 0x30u64 } else { 0x20u64 };
        let key = base + (w as u64 - 1) + if with_default { 8 } else { 0 };
        if signed {
            let d: i64 = kani::any();
            kani::assume(fits_i(d, w));
            let p = layout::Property::<PN>::SignedInt { size: byte_size(w), default: if with_default { Some(d) } else { None }, name: "p" };
            if with_default { check_def(&p, &[wu(key, 1), wi(d, w), NAME_LEN, NAME_P]) } else { check_def(&p, &[wu(key, 1), NAME_LEN, NAME_P]) }
        } else {
            let d: u64 = kani::any();
            kani::assume(fits_u(d, w));
            let p = layout::Property::<PN>::UnsignedInt { size: byte_size(w), default: if with_default { Some(d) } else { None }, name: "p" };
            if with_default { check_def(&p, &[wu(key, 1), wu(d, w), NAME_LEN, NAME_P]) } else { check_def(&p, &[wu(key, 1), NAME_LEN, NAME_P]) }
        }
        kani::cover!(w == 8 && signed && with_default, "8 byte signed default");
        kani::cover!(w == 1 && !signed && !with_default, "1 byte unsigned");
    }
}

wharness! {
    #[kani::unwind(14)]
    fn c02_layout_prop_writer_content() {
        let wp = any_width(1, 2);
        let wc = any_width(1, 4);
        let with_default: bool = kani::any();
        let d: u16 = kani::any();
        kani::assume(fits_u(d as u64, wp));
        let key = 0x10 + (wc as u64 - 1) + if wp == 2 { 4 } else { 0 } + if with_default { 8 } else { 0 };
        let p = layout::Property::<PN>::ContentAddress {
            content_id_size: byte_size(wc), pack_id_size: byte_size(wp),
            default: if with_default { Some(d) } else { None }, name: "p" };
        if with_default { check_def(&p, &[wu(key, 1), wu(d as u64, wp), NAME_LEN, NAME_P]) } else { check_def(&p, &[wu(key, 1), NAME_LEN, NAME_P]) }
        kani::cover!(with_default && wp == 2 && wc == 4, "default, widest");
    }
}

wharness! {
    #[kani::unwind(14)]
    fn c02_layout_prop_writer_array() {
        let wl = any_width(1, 3);
        let wk = any_width(1, 7);
        let indirect: bool = kani::any();
        let fixed: u8 = kani::any();
        kani::assume(fixed <= 31);
        let sidx: u8 = kani::any();
        let store = if indirect { indexed_store_of_count(0, 1, sidx) } else { plain_store_of_size(0, sidx) };
        if indirect {
            let p = layout::Property::<PN>::IndirectArray { value_id_size: byte_size(wk), store_handle: store.clone(), name: "p" };
            check_def(&p, &[wu(0x50, 1), wu((wk as u64) << 5, 1), wu(sidx as u64, 1), NAME_LEN, NAME_P]);
            std::mem::forget(p);
        } else {
            let p = layout::Property::<PN>::Array { array_len_size: Some(byte_size(wl)), fixed_array_len: fixed,
                deported_info: Some((byte_size(wk), store.clone())), name: "p" };
            check_def(&p, &[wu(0x50 + wl as u64, 1), wu(((wk as u64) << 5) + fixed as u64, 1), wu(sidx as u64, 1), NAME_LEN, NAME_P]);
            std::mem::forget(p);
        }
        kani::cover!(wl == 3 && wk == 7 && !indirect && fixed == 31, "widest array");
        kani::cover!(indirect && wk == 2, "indirect");
        std::mem::forget(store);
    }
}

wharness! {
    #[kani::unwind(14)]
    fn c02_layout_prop_writer_misc() {
        let ps: u8 = kani::any();
        kani::assume(ps >= 1 && ps <= 16);
        check_def(&layout::Property::<PN>::Padding(ps), &[wu(ps as u64 - 1, 1)]);
        check_def(&layout::Property::<PN>::VariantId("v1"), &[wu(0x80, 1), wu(2, 1), wd(b'v' as u64 | (b'1' as u64) << 8, 2)]);
        kani::cover!(ps == 16, "largest padding");
    }
}

// ---- variants padded to equal size --------------------------------------------------------------
/// Yields the given properties but announces room for 16 more, so that the `Vec` behind
/// `Properties` is allocated once (a reallocation under a symbolic trip count does not finish).
struct Roomy {
    items: [Option<layout::Property<PN>>; 3],
    i: usize,
}
impl Iterator for Roomy {
    type Item = layout::Property<PN>;
    fn next(&mut self) -> Option<Self::Item> {
        if self.i < 3 {
            self.i += 1;
            self.items[self.i - 1].take()
        } else {
            None
        }
    }
    fn size_hint(&self) -> (usize, Option<usize>) {
        (19, None)
    }
}

fn padding_case(extra: u16) {
    let mut props: layout::Properties<PN> = Roomy {
        items: [
            Some(layout::Property::<PN>::VariantId("v")),
            Some(layout::Property::<PN>::UnsignedInt { size: ByteSize::U1, default: None, name: "a" }),
            Some(layout::Property::<PN>::SignedInt { size: ByteSize::U3, default: None, name: "b" }),
        ],
        i: 0,
    }
    .collect();
    let cur = props.entry_size();
    assert!(cur == 5, "VERIF: entry size is the sum of the property sizes");
    let target = cur + extra;
    props.fill_to_size(target);
    assert!(props.entry_size() == target, "VERIF: variant not padded to the common size");
    let mut i = 3;
    while i < props.len() {
        match &props[i] {
            layout::Property::Padding(s) => assert!(*s >= 1 && *s <= 16, "VERIF: padding size must be 1..=16"),
            _ => assert!(false, "VERIF: fill_to_size added something else than padding"),
        }
        i += 1;
    }
    std::mem::forget(props);
}

vharness! {
    #[kani::unwind(8)]
    fn c02_padding() {
        let extra: u16 = kani::any();
        kani::assume(extra <= 70);
        padding_case(extra);
        kani::cover!(extra == 70, "five paddings");
        kani::cover!(extra == 0, "no padding");
        kani::cover!(extra == 16, "exactly one full padding");
    }
}

// ---- index tail --------------------------------------------------------------------------------
wharness! {
    #[kani::unwind(24)]
    #[kani::stub(crate::bases::Serializer::close, crate::bases::verif_ser::stub_close)]
    fn c02_index_tail() {
        let store_id: u32 = kani::any();
        let count: u32 = kani::any();
        let offset: u32 = kani::any();
        let fd: [u8; 4] = [kani::any(), kani::any(), kani::any(), kani::any()];
        let key: u8 = kani::any();
        // neighbouring fields differ, so that a reordering changes the bytes (a native replay
        // compares bytes, and the solver would otherwise pick all-zero values)
        kani::assume(fd[0] != key && store_id != count && count != offset && (offset as u8) != fd[0] && (offset >> 24) as u8 != fd[0]);
        let mut index = Index::new("ab", IndexFreeData::from(fd), PropertyIdx::from(key),
            EntryStoreIdx::from(store_id), EntryCount::from(count), Word::from(EntryIdx::from(offset)));
        log_reset();
        let mut ser = Serializer::new(BlockCheck::None);
        match index.serialize_tail(&mut ser) {
            Ok(()) => {
                let (buf, _) = ser.close();
                expect_writes(&[
                    wu(store_id as u64, 4), wu(count as u64, 4), wu(offset as u64, 4),
                    wd(u32::from_le_bytes(fd) as u64, 4), wu(key as u64, 1),
                    wu(2, 1), wd(b'a' as u64 | (b'b' as u64) << 8, 2),
                ], &buf);
                std::mem::forget(buf);
            }
            Err(e) => { forget(e); assert!(false, "VERIF: index tail failed"); }
        }
        std::mem::forget(index);
    }
}

// ---- tail size representability ------------------------------------------------------------------
const BIG: usize = 100_000;
struct BigTail {
    n: usize,
}
impl WritableTell for BigTail {
    fn write_data(&mut self, _stream: &mut dyn OutStream) -> crate::creator::Result<()> {
        Ok(())
    }
    fn serialize_tail(&mut self, ser: &mut Serializer) -> IoResult<()> {
        if is_symbolic() {
            crate::bases::verif_ser::fake_fill(ser, self.n, BIG);
        } else {
            let data = vec![0u8; self.n];
            ser.write_data(&data)?;
        }
        Ok(())
    }
}

/// A stream that counts what it is given (the bytes of the tail are not the subject).
#[derive(Debug)]
struct NullStream {
    pos: u64,
}
impl std::io::Write for NullStream {
    fn write(&mut self, b: &[u8]) -> std::io::Result<usize> {
        self.pos += b.len() as u64;
        Ok(b.len())
    }
    fn flush(&mut self) -> std::io::Result<()> {
        Ok(())
    }
}
impl std::io::Seek for NullStream {
    fn seek(&mut self, p: std::io::SeekFrom) -> std::io::Result<u64> {
        match p {
            std::io::SeekFrom::Start(o) => self.pos = o,
            std::io::SeekFrom::Current(d) => self.pos = (self.pos as i64 + d) as u64,
            std::io::SeekFrom::End(_) => {}
        }
        Ok(self.pos)
    }
}
impl OutStream for NullStream {
    fn copy(
        &mut self,
        reader: Box<dyn crate::creator::InputReader>,
    ) -> IoResult<(u64, crate::creator::MaybeFileReader)> {
        Ok((0, reader.get_file_source()))
    }
}

vharness! {
    #[kani::unwind(4)]
    #[kani::stub(crate::bases::Serializer::close, crate::bases::verif_ser::stub_close)]
    fn c02_tail_size() {
        let n: usize = kani::any();
        kani::assume(n <= BIG);
        let start: u64 = kani::any();
        kani::assume(start < (1u64 << 40));
        let mut t = BigTail { n };
        let mut out = NullStream { pos: start };
        match t.write(&mut out) {
            Ok(so) => {
                assert!(so.offset.into_u64() == start, "VERIF: sized offset position");
                // what a reader gets back from the 8 byte sized offset (offset << 16 | size)
                let word: u64 = (so.offset.into_u64() << 16) + (so.size.into_u64() & 0xFFFF);
                assert!(
                    (word & 0xFFFF) == n as u64 && so.size.into_u64() == n as u64,
                    "VERIF: tail size does not survive the 16 bit size field of its sized offset"
                );
                assert!(out.pos == start + n as u64 + 4, "VERIF: tail and checksum written");
            }
            Err(e) => {
                forget(e);
                // refusing to write is the specified behaviour for what cannot be represented
                assert!(n > 0xFFFF, "VERIF: a representable tail was refused");
            }
        }
        kani::cover!(n == 65535, "largest representable tail");
        kani::cover!(n == 65536, "first unrepresentable tail");
    }
}
