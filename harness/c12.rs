// C12 — the pack-info block: what a location rewrite may touch. Injected at the crate root.
#![allow(dead_code, unused_imports, unused_variables)]
use crate::bases::*;
use crate::common::{PackInfo, PackKind};
use crate::verif_common::*;
use std::borrow::Cow;
use uuid::Uuid;

// @h c12_pack_info_w | PackInfo::serialize; PString::serialize_string_padded; Uuid/Size/SizedOffset/PackId/PackKind serialize | every field; location of concrete length l in {0,1,16,17,213} (case split; ASCII bytes symbolic for l <= 17) and of 2 and 3 bytes starting with a 2-byte UTF-8 character (byte count != char count) | writes == uuid(16) pack size(8) check-info sized offset(8) pack id(2) kind(1) group(1) free data id(2), i.e. 38 bytes that do not depend on the location, then location length byte, bytes, zero padding up to 213: 252 bytes in all | l <= 213 (first 32 location bytes compared)
// @h c12_pack_info_r | PackInfo::parse; PString::parse; SmallString::from_byte_vec | reference encoding, location length l in {0,1,2,9}, 2 byte locations are any two bytes (multi byte UTF-8 or invalid), all other fields symbolic | fields recovered, exactly 252 bytes consumed whatever the location length, invalid UTF-8 is an error | l <= 9; a parser over the first 48 bytes of a zero padded 252 byte block (the real SliceParser: c14_prim_read)

fn any16() -> [u8; 16] {
    let mut a = [0u8; 16];
    fill_any(&mut a);
    a
}

fn kind_of(k: u8) -> (PackKind, u8) {
    match k { 0 => (PackKind::Manifest, b'm'), 1 => (PackKind::Directory, b'd'), 2 => (PackKind::Content, b'c'), _ => (PackKind::Container, b'C') }
}

fn pack_info_w(l: usize, accent: bool) {
    let uuid = any16();
    let size: u64 = kani::any();
    let off: u64 = kani::any();
    let csz: usize = kani::any();
    kani::assume(off < (1u64 << 48) && csz <= 0xFFFF);
    let pid: u16 = kani::any();
    let k: u8 = kani::any();
    kani::assume(k < 4);
    let (kind, kb) = kind_of(k);
    let group: u8 = kani::any();
    let fdid: u16 = kani::any();
    // ASCII location of length l; the first (up to 17) bytes symbolic
    let mut loc = [b'x'; 213];
    let mut i = 0;
    while i < l && i < 17 {
        if accent && i < 2 {
            // "\u{e9}" (2 bytes, 1 char): byte count and char count differ
            loc[i] = if i == 0 { 0xC3 } else { 0xA9 };
        } else {
            let c: u8 = kani::any();
            kani::assume(c >= 0x20 && c < 0x7F);
            loc[i] = c;
        }
        i += 1;
    }
    let location = if l <= 16 {
        SmallString::from_byte_slice(&loc[..l]).unwrap()
    } else {
        // adopt a heap buffer (copying > 16 bytes into a SmallVec does not get through CBMC)
        SmallString::from(unsafe { String::from_utf8_unchecked(loc[..l].to_vec()) })
    };
    let pi = PackInfo { uuid: Uuid::from_bytes(uuid), pack_size: Size::new(size), check_info_pos: SizedOffset::new(ASize::new(csz), Offset::new(off)),
        pack_id: PackId::from(pid), pack_kind: kind, pack_group: group, free_data_id: ValueIdx::from(fdid as u64), pack_location: location };
    log_reset();
    let mut ser = Serializer::new(BlockCheck::None);
    match pi.serialize(&mut ser) {
        Ok(n) => {
            assert!(n == 252, "VERIF: a pack info is 252 bytes whatever its location");
            let (buf, _) = ser.close();
            expect_writes(&[
                wdb(&uuid, 16), wu(size, 8), wu((off << 16) | csz as u64, 8), wu(pid as u64, 2), wu(kb as u64, 1), wu(group as u64, 1), wu(fdid as u64, 2),
                wu(l as u64, 1), wdb(&loc[..l], l), wd(0, 213 - l),
            ], &buf);
            std::mem::forget(buf);
        }
        Err(e) => { forget(e); assert!(false, "VERIF: pack info serialize failed"); }
    }
    assert!(<PackInfo as SizedParsable>::SIZE == 252 && PackInfo::BLOCK_SIZE == 256, "VERIF: pack info block size");
    std::mem::forget(pi);
}

macro_rules! pack_info_w_inst {
    ($name:ident, $l:expr) => {
        wharness! {
            #[kani::unwind(40)]
            #[kani::stub(std::str::from_utf8, crate::verif_common::stub_from_utf8)]
            fn $name() { pack_info_w($l, false) }
        }
    };
}
pack_info_w_inst!(c12_pack_info_w_l0, 0);
pack_info_w_inst!(c12_pack_info_w_l1, 1);
pack_info_w_inst!(c12_pack_info_w_l16, 16);
pack_info_w_inst!(c12_pack_info_w_l17, 17);
pack_info_w_inst!(c12_pack_info_w_l213, 213);
wharness! {
    #[kani::unwind(40)]
    #[kani::stub(std::str::from_utf8, crate::verif_common::stub_from_utf8)]
    fn c12_pack_info_w_l2_accent() { pack_info_w(2, true) }
}
wharness! {
    #[kani::unwind(40)]
    #[kani::stub(std::str::from_utf8, crate::verif_common::stub_from_utf8)]
    fn c12_pack_info_w_l3_accent() { pack_info_w(3, true) }
}

/// A parser over a 252 byte block given by its first 48 bytes (the rest is zero): what
/// `PackInfo::parse` needs, without a 252 byte array (which CBMC does not track per element).
/// The real `SliceParser` is exercised in c14_prim_read.
struct HeadParser {
    head: [u8; 48],
    pos: usize,
}
impl HeadParser {
    fn byte(&self, p: usize) -> u8 {
        if p < 48 { self.head[p] } else { 0 }
    }
}
impl Parser for HeadParser {
    fn read_slice(&mut self, size: usize) -> Result<Cow<[u8]>> {
        if self.pos + size > 252 {
            return Err(format_error!("out of block"));
        }
        if self.pos + size <= 48 {
            // borrowed from the (per-element tracked) head: keeps concrete bytes concrete
            let s = &self.head[self.pos..self.pos + size];
            self.pos += size;
            return Ok(Cow::Borrowed(s));
        }
        let mut v = Vec::with_capacity(size);
        let mut i = 0;
        while i < size {
            v.push(self.byte(self.pos + i));
            i += 1;
        }
        self.pos += size;
        Ok(Cow::Owned(v))
    }
    fn read_data(&mut self, buf: &mut [u8]) -> Result<()> {
        if self.pos + buf.len() > 252 {
            return Err(format_error!("out of block"));
        }
        let mut i = 0;
        while i < buf.len() {
            buf[i] = self.byte(self.pos + i);
            i += 1;
        }
        self.pos += buf.len();
        Ok(())
    }
    fn global_offset(&self) -> Offset {
        Offset::new(self.pos as u64)
    }
    // the trait has this extra method in test builds (which is what a native replay compiles)
    #[cfg(test)]
    fn tell(&self) -> Offset {
        Offset::new(self.pos as u64)
    }
    fn skip(&mut self, size: usize) -> Result<()> {
        if self.pos + size > 252 {
            return Err(format_error!("out of block"));
        }
        self.pos += size;
        Ok(())
    }
}

fn pack_info_r(l: usize, kb: u8) {
    let mut b = [0u8; 48];
    fill_any(&mut b[0..34]);
    b[34] = kb;
    fill_any(&mut b[35..38]);
    b[38] = l as u8;
    if l == 2 && kb == b'm' {
        // any two bytes: valid UTF-8 (two ASCII or one two-byte sequence) or not
        b[39] = kani::any();
        b[40] = kani::any();
    } else if l == 2 {
        // a concrete two-byte character ("é"): one character, two bytes
        b[39] = 0xC3;
        b[40] = 0xA9;
    } else {
        let mut i = 0;
        while i < l { b[39 + i] = b'a' + (i as u8 % 26); i += 1; }
    }
    let mut p = HeadParser { head: b, pos: 0 };
    match PackInfo::parse(&mut p) {
        Ok(pi) => {
            let u = pi.uuid.as_bytes();
            assert!(u[0] == b[0] && u[15] == b[15], "VERIF: pack info uuid");
            assert!(pi.pack_size.into_u64() == ref_le_uint(&b[16..], 8), "VERIF: pack info size");
            let w = ref_le_uint(&b[24..], 8);
            assert!(pi.check_info_pos.offset.into_u64() == w >> 16 && pi.check_info_pos.size.into_u64() == w & 0xFFFF, "VERIF: pack info check position");
            assert!(pi.pack_id.into_u16() as u64 == ref_le_uint(&b[32..], 2), "VERIF: pack id");
            let k = match pi.pack_kind { PackKind::Manifest => b'm', PackKind::Directory => b'd', PackKind::Content => b'c', PackKind::Container => b'C' };
            assert!(k == kb, "VERIF: pack kind");
            assert!(pi.pack_group == b[35], "VERIF: pack group");
            assert!(pi.free_data_id.into_u64() == ref_le_uint(&b[36..], 2), "VERIF: free data id");
            assert!(pi.pack_location.as_str().len() == l, "VERIF: location length");
            let lb = pi.pack_location.as_str().as_bytes();
            let mut i = 0;
            while i < l { assert!(lb[i] == b[39 + i], "VERIF: location bytes"); i += 1; }
            if l == 2 {
                let valid = (b[39] < 0x80 && b[40] < 0x80) || (b[39] >= 0xC2 && b[39] <= 0xDF && b[40] >= 0x80 && b[40] <= 0xBF);
                assert!(valid, "VERIF: invalid UTF-8 accepted as a location");
            }
            assert!(p.pos == 252, "VERIF: a pack info must consume exactly 252 bytes whatever its location");
            std::mem::forget(pi);
        }
        Err(e) => {
            forget(e);
            let valid = l != 2 || (b[39] < 0x80 && b[40] < 0x80) || (b[39] >= 0xC2 && b[39] <= 0xDF && b[40] >= 0x80 && b[40] <= 0xBF);
            assert!(!valid, "VERIF: a well formed pack info was rejected");
        }
    }
}

macro_rules! pack_info_r_inst {
    ($name:ident, $l:expr, $kb:expr, $($stub:meta)?) => {
        vharness! {
            #[kani::unwind(40)]
            $(#[$stub])?
            fn $name() { pack_info_r($l, $kb) }
        }
    };
}
pack_info_r_inst!(c12_pack_info_r_l0, 0, b'c', kani::stub(std::str::from_utf8, crate::verif_common::stub_from_utf8));
pack_info_r_inst!(c12_pack_info_r_l1, 1, b'd', kani::stub(std::str::from_utf8, crate::verif_common::stub_from_utf8));
pack_info_r_inst!(c12_pack_info_r_l2_utf8, 2, b'm', );
pack_info_r_inst!(c12_pack_info_r_l9, 9, b'C', kani::stub(std::str::from_utf8, crate::verif_common::stub_from_utf8));
pack_info_r_inst!(c12_pack_info_r_l2_accent, 2, b'd', );
