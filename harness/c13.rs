// C13 — all views of a stored content agree.
// Injected as a child module of `crate::reader`.
#![allow(dead_code, unused_imports, unused_variables)]

use crate::bases::*;
use crate::reader::{ByteRegion, ByteSlice, ByteStream};
use crate::verif_common::*;
use std::io::Read;

// @h c13_cuts | Reader::get_byte_slice; ByteRegion::{cut,as_slice,size,get_slice}; ByteSlice::{cut,size,get_slice}; Region::{cut_rel,cut_rel_asize}; <[u8;N] as Source>::get_slice; From<ByteSlice> for ByteRegion | 9 source bytes, 4 nested (offset,size) pairs, first offset >= 1 | bytes == source[sum of offsets ..][..len], sizes agree, no panic | depth 3 cuts + 1 read, source 9 bytes, unwind 10
// @h c13_stream | ByteRegion::stream; ByteSlice::stream; From<ByteRegion> for ByteStream; Reader::create_stream; ByteStream::{read,size,offset,size_left}; <[u8;N] as Source>::read | 9 source bytes, region (offset>=1,size), three read sizes 0..=8 | each read returns min(want,left) bytes equal to the region's next bytes; offset+size_left==size after every read; fresh stream at offset 0 | 3 reads, source 9 bytes, one harness per construction (5)
// @h c13_parser | RandomParser for ByteRegion / ByteSlice: create_parser; read_slice; read_data; read_u8..u64; read_i16..i64; read_usized; read_isized; global_offset; SliceParser | 9 source bytes, region, offset in region, width 1..8 | value == little-endian (sign-extended) decode at region.begin+offset by an independent reference; parser ends with the view | source 9 bytes, unwind 10
// @h c13_conv | Reader::{cut,cut_check,get_byte_slice,size,global_offset}; From<CheckReader> for Reader; From<ByteSlice> for ByteRegion; ByteRegion::as_slice | 9 source bytes, two nested (offset,size), in_memory flag | same region, same bytes after conversion | source 9 bytes; O-crc accepts
const N: usize = 9;

fn mk() -> (Reader, [u8; N]) {
    let data: [u8; N] = kani::any();
    (Reader::from(data), data)
}

/// An arbitrary (offset, size) inside a parent of size `parent`.
fn sub(parent: u64) -> (u64, u64) {
    let o: u64 = kani::any();
    let s: u64 = kani::any();
    kani::assume(o <= parent);
    kani::assume(s <= parent - o);
    (o, s)
}

fn same_bytes(got: &[u8], data: &[u8; N], abs: u64, len: u64) {
    assert!(got.len() as u64 == len, "VERIF: view length differs");
    let mut i = 0usize;
    while i < got.len() {
        assert!(
            got[i] == data[abs as usize + i],
            "VERIF: view bytes differ from the underlying range"
        );
        i += 1;
    }
}

// -- c13_cuts: nested cuts to depth 3, on ByteSlice and ByteRegion -----------------------------
fn cuts_body(canary: bool) {
    let (reader, data) = mk();
    let (o1, s1) = sub(N as u64);
    kani::assume(o1 >= 1); // content never starts at offset 0 of its source
    let slice1 = reader.get_byte_slice(Offset::new(o1), Size::new(s1));
    assert!(slice1.size().into_u64() == s1);
    let region1: ByteRegion = slice1.clone().into();
    assert!(region1.size().into_u64() == s1);

    let (o2, s2) = sub(s1);
    // depth 2 through both types
    let slice2 = region1.cut(Offset::new(o2), Size::new(s2));
    let slice2b = slice1.cut(Offset::new(o2), Size::new(s2));
    assert!(slice2.size().into_u64() == s2);
    assert!(slice2b.size().into_u64() == s2);

    let (o3, s3) = sub(s2);
    let slice3 = slice2.cut(Offset::new(o3), Size::new(s3));
    let region2: ByteRegion = slice2b.into();
    let slice3b = region2.cut(Offset::new(o3), Size::new(s3));
    assert!(slice3.size().into_u64() == s3);
    assert!(slice3b.size().into_u64() == s3);

    // a last sub range read through get_slice
    let (o4, s4) = sub(s3);
    let abs = o1 + o2 + o3 + o4;
    match slice3.get_slice(Offset::new(o4), s4 as usize) {
        Ok(b) => same_bytes(&b, &data, abs, s4),
        Err(e) => {
            forget(e);
            assert!(false, "VERIF: get_slice inside the view failed");
        }
    }
    match slice3b.get_slice(Offset::new(o4), s4 as usize) {
        Ok(b) => same_bytes(&b, &data, abs, s4),
        Err(e) => {
            forget(e);
            assert!(false, "VERIF: get_slice inside the view failed");
        }
    }
    let region3: ByteRegion = slice3.into();
    match region3.get_slice(Offset::new(o4), s4 as usize) {
        Ok(b) => same_bytes(&b, &data, abs, s4),
        Err(e) => {
            forget(e);
            assert!(false, "VERIF: get_slice inside the view failed");
        }
    }
    match region3.as_slice().get_slice(Offset::new(o4), s4 as usize) {
        Ok(b) => same_bytes(&b, &data, abs, s4),
        Err(e) => {
            forget(e);
            assert!(false, "VERIF: get_slice inside the view failed");
        }
    }
    kani::cover!(o2 > 0 && o3 > 0 && o4 > 0 && s4 > 0, "all levels shifted");
    kani::cover!(s4 == 3, "three bytes read at depth 3");
    if canary {
        assert!(false, "CANARY");
    }
}

vharness! {
    #[kani::unwind(10)]
    fn c13_cuts() { cuts_body(false) }
}
vharness! {
    #[kani::unwind(10)]
    fn c13_canary_cuts() { cuts_body(true) }
}

// -- c13_stream: all stream constructions, any three read sizes ------------------------------
#[derive(Clone, Copy)]
enum Ctor {
    RegionStream,
    SliceStream,
    FromRegion,
    ReaderStream,
    ReaderStreamMem,
}

fn stream_body(ctor: Ctor) {
    let (reader, data) = mk();
    let (o1, s1) = sub(N as u64);
    kani::assume(o1 >= 1);
    let slice1 = reader.get_byte_slice(Offset::new(o1), Size::new(s1));
    let region1: ByteRegion = slice1.clone().into();
    let mut stream: ByteStream = match ctor {
        Ctor::RegionStream => region1.stream(),
        Ctor::SliceStream => slice1.stream(),
        Ctor::FromRegion => ByteStream::from(region1),
        Ctor::ReaderStream => match reader.create_stream(Offset::new(o1), Size::new(s1), false) {
            Ok(s) => s,
            Err(e) => {
                forget(e);
                assert!(false, "VERIF: create_stream failed");
                return;
            }
        },
        Ctor::ReaderStreamMem => {
            match reader.create_stream(Offset::new(o1), Size::new(s1), true) {
                Ok(s) => s,
                Err(e) => {
                    forget(e);
                    assert!(false, "VERIF: create_stream failed");
                    return;
                }
            }
        }
    };
    assert!(stream.size() == s1, "VERIF: stream size");
    assert!(stream.offset() == 0, "VERIF: fresh stream offset is not 0");
    assert!(stream.size_left() == s1, "VERIF: fresh stream size_left");

    let mut consumed: u64 = 0;
    let mut k = 0;
    while k < 3 {
        let want: usize = kani::any();
        kani::assume(want <= N);
        let mut buf = [0u8; N];
        match stream.read(&mut buf[..want]) {
            Ok(n) => {
                let left = s1 - consumed;
                let expect = if (want as u64) < left { want as u64 } else { left };
                assert!(n as u64 == expect, "VERIF: read length");
                same_bytes(&buf[..n], &data, o1 + consumed, n as u64);
                consumed += n as u64;
            }
            Err(e) => {
                forget(e);
                assert!(false, "VERIF: stream read failed");
            }
        }
        assert!(stream.offset() == consumed, "VERIF: stream offset");
        assert!(stream.size_left() == s1 - consumed, "VERIF: stream size_left");
        assert!(stream.size() == s1, "VERIF: stream size changed");
        k += 1;
    }
    kani::cover!(consumed == s1 && s1 >= 3, "fully consumed in three reads");
    kani::cover!(consumed < s1, "partially consumed");
}

vharness! {
    #[kani::unwind(10)]
    fn c13_stream_region() { stream_body(Ctor::RegionStream) }
}
vharness! {
    #[kani::unwind(10)]
    fn c13_stream_slice() { stream_body(Ctor::SliceStream) }
}
vharness! {
    #[kani::unwind(10)]
    fn c13_stream_from_region() { stream_body(Ctor::FromRegion) }
}
vharness! {
    #[kani::unwind(10)]
    fn c13_stream_reader() { stream_body(Ctor::ReaderStream) }
}
vharness! {
    #[kani::unwind(10)]
    fn c13_stream_reader_mem() { stream_body(Ctor::ReaderStreamMem) }
}

// -- c13_stream_exact: read_exact after a partial read stays inside the content -----------------
// @h c13_stream_exact | ByteRegion::stream; ByteStream::{read,read_exact,offset,size_left,size}; <[u8;N] as Source>::{read,read_exact} | 9 source bytes, region (offset>=1,size), a first read of 0..=8 bytes, then read_exact of 0..=8 bytes | read_exact succeeds exactly when the request fits what is left, returns the region's next bytes and advances by the request; otherwise it fails and the cursor never passes the content's end (no foreign bytes, offset <= size) | 1 read + 1 read_exact, source 9 bytes
fn stream_exact_body() {
    let (reader, data) = mk();
    let (o1, s1) = sub(N as u64);
    kani::assume(o1 >= 1);
    let slice1 = reader.get_byte_slice(Offset::new(o1), Size::new(s1));
    let region1: ByteRegion = slice1.into();
    let mut stream: ByteStream = region1.stream();
    let first: usize = kani::any();
    kani::assume(first <= N);
    let mut buf = [0u8; N];
    let consumed = match stream.read(&mut buf[..first]) {
        Ok(n) => n as u64,
        Err(e) => {
            forget(e);
            assert!(false, "VERIF: stream read failed");
            return;
        }
    };
    assert!(consumed <= s1);
    let left = s1 - consumed;
    let want: usize = kani::any();
    kani::assume(want <= N);
    let mut buf2 = [0u8; N];
    match stream.read_exact(&mut buf2[..want]) {
        Ok(()) => {
            assert!(want as u64 <= left, "VERIF: read_exact succeeded beyond the end of the content (foreign bytes)");
            same_bytes(&buf2[..want], &data, o1 + consumed, want as u64);
            assert!(stream.offset() == consumed + want as u64, "VERIF: read_exact did not advance by the request");
        }
        Err(e) => {
            forget(e);
            assert!(want as u64 > left, "VERIF: read_exact failed although the request fits");
        }
    }
    assert!(stream.offset() <= s1, "VERIF: cursor beyond the end of the content");
    assert!(stream.size() == s1, "VERIF: stream size changed");
    assert!(stream.offset() + stream.size_left() == s1, "VERIF: offset + size_left != size");
    kani::cover!(consumed > 0 && want as u64 > left && want as u64 <= s1, "request between left and size");
    kani::cover!(consumed > 0 && want > 0 && want as u64 <= left, "fits");
}
vharness! {
    #[kani::unwind(10)]
    fn c13_stream_exact() { stream_exact_body() }
}

// -- c13_parser: random access parsers of the views read at region.begin + offset --------------
fn parser_body(on_region: bool) {
    let (reader, data) = mk();
    let (o1, s1) = sub(N as u64);
    kani::assume(o1 >= 1);
    let slice1 = reader.get_byte_slice(Offset::new(o1), Size::new(s1));
    let region1: ByteRegion = slice1.clone().into();

    let off: u64 = kani::any();
    let w: usize = kani::any();
    kani::assume(w >= 1 && w <= 8);
    kani::assume(off <= s1 && (w as u64) <= s1 - off);
    let abs = (o1 + off) as usize;
    let expect_u = ref_le_uint(&data[abs..], w);
    let expect_i = ref_le_int(&data[abs..], w);
    let bs: ByteSize = match w {
        1 => ByteSize::U1,
        2 => ByteSize::U2,
        3 => ByteSize::U3,
        4 => ByteSize::U4,
        5 => ByteSize::U5,
        6 => ByteSize::U6,
        7 => ByteSize::U7,
        _ => ByteSize::U8,
    };
    macro_rules! checks {
        ($v:expr) => {{
            let v = $v;
            assert!(v.global_offset().into_u64() == o1, "VERIF: global offset");
            match v.read_usized(Offset::new(off), bs) {
                Ok(x) => assert!(x == expect_u, "VERIF: read_usized"),
                Err(e) => { forget(e); assert!(false, "VERIF: read_usized failed"); }
            }
            match v.read_isized(Offset::new(off), bs) {
                Ok(x) => assert!(x == expect_i, "VERIF: read_isized"),
                Err(e) => { forget(e); assert!(false, "VERIF: read_isized failed"); }
            }
            match v.read_u8(Offset::new(off)) {
                Ok(x) => assert!(x == data[abs], "VERIF: read_u8"),
                Err(e) => { forget(e); assert!(false, "VERIF: read_u8 failed"); }
            }
            if w == 2 {
                match v.read_u16(Offset::new(off)) {
                    Ok(x) => assert!(x as u64 == expect_u, "VERIF: read_u16"),
                    Err(e) => { forget(e); assert!(false); }
                }
                match v.read_i16(Offset::new(off)) {
                    Ok(x) => assert!(x as i64 == expect_i, "VERIF: read_i16"),
                    Err(e) => { forget(e); assert!(false); }
                }
            }
            if w == 4 {
                match v.read_u32(Offset::new(off)) {
                    Ok(x) => assert!(x as u64 == expect_u, "VERIF: read_u32"),
                    Err(e) => { forget(e); assert!(false); }
                }
                match v.read_i32(Offset::new(off)) {
                    Ok(x) => assert!(x as i64 == expect_i, "VERIF: read_i32"),
                    Err(e) => { forget(e); assert!(false); }
                }
            }
            if w == 8 {
                match v.read_u64(Offset::new(off)) {
                    Ok(x) => assert!(x == expect_u, "VERIF: read_u64"),
                    Err(e) => { forget(e); assert!(false); }
                }
                match v.read_i64(Offset::new(off)) {
                    Ok(x) => assert!(x == expect_i, "VERIF: read_i64"),
                    Err(e) => { forget(e); assert!(false); }
                }
            }
            match v.read_slice(Offset::new(off), w) {
                Ok(b) => same_bytes(&b, &data, abs as u64, w as u64),
                Err(e) => { forget(e); assert!(false, "VERIF: read_slice failed"); }
            }
            let mut buf = [0u8; 8];
            match v.read_data(Offset::new(off), &mut buf[..w]) {
                Ok(()) => same_bytes(&buf[..w], &data, abs as u64, w as u64),
                Err(e) => { forget(e); assert!(false, "VERIF: read_data failed"); }
            }
            match v.create_parser(Offset::new(off)) {
                Ok(mut p) => {
                    assert!(p.global_offset().into_u64() == o1 + off, "VERIF: parser global offset");
                    match p.read_usized(bs) {
                        Ok(x) => assert!(x == expect_u, "VERIF: parser read_usized"),
                        Err(e) => { forget(e); assert!(false, "VERIF: parser read failed"); }
                    }
                    assert!(p.global_offset().into_u64() == o1 + off + w as u64);
                    // the parser must end with the view
                    let rest = (s1 - off) as usize - w;
                    match p.skip(rest) {
                        Ok(()) => {}
                        Err(e) => { forget(e); assert!(false, "VERIF: parser shorter than the view"); }
                    }
                    match p.read_u8() {
                        Ok(_) => assert!(false, "VERIF: parser reads past the view"),
                        Err(e) => forget(e),
                    }
                }
                Err(e) => { forget(e); assert!(false, "VERIF: create_parser failed"); }
            }
        }};
    }
    if on_region {
        checks!(&region1);
    } else {
        checks!(&slice1);
    }
    kani::cover!(off > 0 && w == 3, "3 byte read at a shifted offset");
    kani::cover!(w == 8, "8 byte read");
}

vharness! {
    #[kani::unwind(10)]
    fn c13_parser_region() { parser_body(true) }
}
vharness! {
    #[kani::unwind(10)]
    fn c13_parser_slice() { parser_body(false) }
}

// -- c13_conv: conversions keep the region -------------------------------------------------------
vharness! {
    #[kani::unwind(10)]
    #[kani::stub(crate::bases::assert_slice_crc, crate::verif_common::crc_oracle)]
    fn c13_conv() {
        let (reader, data) = mk();
        let (o1, s1) = sub(N as u64);
        kani::assume(o1 >= 1);
        // Reader::cut (both in_memory flags) then a view of the whole sub reader
        let in_mem: bool = kani::any();
        let sub_reader = match reader.cut(Offset::new(o1), Size::new(s1), in_mem) {
            Ok(r) => r,
            Err(e) => { forget(e); assert!(false, "VERIF: Reader::cut failed"); return; }
        };
        assert!(sub_reader.size().into_u64() == s1);
        assert!(sub_reader.global_offset().into_u64() == o1);
        let (o2, s2) = sub(s1);
        let v = sub_reader.get_byte_slice(Offset::new(o2), Size::new(s2));
        match v.get_slice(Offset::zero(), s2 as usize) {
            Ok(b) => same_bytes(&b, &data, o1 + o2, s2),
            Err(e) => { forget(e); assert!(false); }
        }
        // CheckReader -> Reader keeps the region (crc oracle accepts; needs 4 trailing bytes)
        if s1 + 4 <= N as u64 - o1 {
            match reader.cut_check(Offset::new(o1), Size::new(s1), BlockCheck::Crc32) {
                Ok(cr) => {
                    let r2: Reader = cr.into();
                    assert!(r2.size().into_u64() == s1);
                    assert!(r2.global_offset().into_u64() == o1);
                    let v = r2.get_byte_slice(Offset::new(o2), Size::new(s2));
                    match v.get_slice(Offset::zero(), s2 as usize) {
                        Ok(b) => same_bytes(&b, &data, o1 + o2, s2),
                        Err(e) => { forget(e); assert!(false); }
                    }
                }
                Err(e) => { forget(e); assert!(false, "VERIF: cut_check failed with accepting oracle"); }
            }
        }
        // ByteSlice -> ByteRegion -> as_slice
        let r: ByteRegion = v.clone().into();
        assert!(r.size().into_u64() == s2);
        assert!(r.as_slice().size().into_u64() == s2);
        kani::cover!(o2 > 0 && s2 > 0, "shifted sub view");
    }
}

// -- c13_big_views: the same view arithmetic on contents beyond 64 KiB -------------------------------
// @h c13_big_views | ByteRegion::{get_slice,cut,as_slice,stream,size}; ByteSlice::{get_slice,cut,stream}; RandomParser::read_slice for both; ByteStream::{read,size_left,offset}; Region::{cut_rel,cut_rel_asize} | source length up to 2^40, content (offset >= 1, size), sub range (offset, size up to 2^32), read size | the source is asked for exactly [content begin + offset, + size): no cap, no shift, whatever the size; the stream reads from the content's begin and never more than is left | a recording source of symbolic length (bytes are not materialised)
static mut REC: (u64, u64, u8) = (0, 0, 0);

#[derive(Debug)]
struct RecSource {
    len: u64,
}
impl Source for RecSource {
    fn size(&self) -> Size {
        Size::new(self.len)
    }
    fn read(&self, offset: Offset, buf: &mut [u8]) -> std::io::Result<usize> {
        unsafe { REC = (offset.into_u64(), buf.len() as u64, 1); }
        Ok(buf.len())
    }
    fn read_exact(&self, offset: Offset, buf: &mut [u8]) -> std::io::Result<()> {
        unsafe { REC = (offset.into_u64(), buf.len() as u64, 2); }
        Ok(())
    }
    fn get_slice(&self, region: ARegion, _block_check: BlockCheck) -> Result<std::borrow::Cow<[u8]>> {
        unsafe { REC = (region.begin().into_u64(), region.size().into_u64(), 3); }
        Ok(std::borrow::Cow::Owned(Vec::new()))
    }
    fn cut(self: Arc<Self>, region: Region, _block_check: BlockCheck, _in_memory: bool) -> Result<(Arc<dyn Source>, Region)> {
        Ok((self, region))
    }
    fn display(&self) -> String {
        String::new()
    }
}
use std::sync::Arc;

vharness! {
    #[kani::unwind(4)]
    fn c13_big_views() {
        let len: u64 = kani::any();
        kani::assume(len <= (1u64 << 40));
        let reader = Reader::new(RecSource { len }, Size::new(len));
        let (o1, s1) = sub(len);
        kani::assume(o1 >= 1);
        let slice1 = reader.get_byte_slice(Offset::new(o1), Size::new(s1));
        let region1: ByteRegion = slice1.clone().into();
        assert!(region1.size().into_u64() == s1 && slice1.size().into_u64() == s1);
        let (o2, s2) = sub(s1);
        kani::assume(s2 <= (1u64 << 32));
        let want = (o1 + o2, s2, 3u8);
        macro_rules! asked { ($what:expr) => { assert!(unsafe { REC } == want, $what); unsafe { REC = (0, 0, 0); } }; }
        match region1.get_slice(Offset::new(o2), s2 as usize) { Ok(_) => { asked!("VERIF: ByteRegion::get_slice does not ask the source for the requested range"); } Err(e) => { forget(e); assert!(false); } }
        match slice1.get_slice(Offset::new(o2), s2 as usize) { Ok(_) => { asked!("VERIF: ByteSlice::get_slice does not ask the source for the requested range"); } Err(e) => { forget(e); assert!(false); } }
        match region1.read_slice(Offset::new(o2), s2 as usize) { Ok(_) => { asked!("VERIF: ByteRegion::read_slice does not ask the source for the requested range"); } Err(e) => { forget(e); assert!(false); } }
        match slice1.read_slice(Offset::new(o2), s2 as usize) { Ok(_) => { asked!("VERIF: ByteSlice::read_slice does not ask the source for the requested range"); } Err(e) => { forget(e); assert!(false); } }
        let cut = region1.cut(Offset::new(o2), Size::new(s2));
        match cut.get_slice(Offset::zero(), s2 as usize) { Ok(_) => { asked!("VERIF: a sub-cut does not ask the source for its own range"); } Err(e) => { forget(e); assert!(false); } }
        match region1.as_slice().cut(Offset::new(o2), Size::new(s2)).get_slice(Offset::zero(), s2 as usize) { Ok(_) => { asked!("VERIF: a sub-cut of a slice does not ask the source for its own range"); } Err(e) => { forget(e); assert!(false); } }
        // streaming a big content
        let mut stream = cut.stream();
        assert!(stream.size() == s2 && stream.offset() == 0 && stream.size_left() == s2, "VERIF: fresh stream figures");
        let n: usize = kani::any();
        kani::assume(n <= 4);
        let mut buf = [0u8; 4];
        match stream.read(&mut buf[..n]) {
            Ok(r) => {
                let expect = if (n as u64) < s2 { n as u64 } else { s2 };
                assert!(r as u64 == expect, "VERIF: stream read length");
                assert!(unsafe { REC } == (o1 + o2, expect, 1), "VERIF: the stream does not read at the content's position");
                assert!(stream.offset() == expect && stream.size_left() == s2 - expect && stream.size() == s2, "VERIF: stream figures after a read");
            }
            Err(e) => { forget(e); assert!(false); }
        }
        kani::cover!(s2 > 0xFFFF && o2 > 0, "sub range beyond 64 KiB");
        kani::cover!(s2 == 0xFFFF, "exactly 65535 bytes");
        kani::cover!(s1 > (1u64 << 33), "content beyond 8 GiB");
    }
}
