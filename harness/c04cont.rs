// C04 — ContentPack::check hashes exactly [0, check_info_pos); C01 — addresses past the count.
// Child of reader::content_pack.
#![allow(dead_code, unused_imports)]
use super::ContentPack;
use crate::bases::*;
use crate::common::{ContentPackHeader, PackHeader, PackKind};
use crate::verif_common::*;
use fxhash::FxBuildHasher;
use lru::LruCache;
use std::num::NonZeroUsize;
use std::sync::{Mutex, OnceLock};

// @h c04_range_content | <ContentPack as Pack>::check; Reader::{parse_block_in,create_stream}; CheckInfo::{parse,check}; ByteStream::read | as c04_range_directory, for a content pack | exactly [0, check_info_pos) is hashed; pristine verifies, altered does not | body <= 20 bytes; struct literal (the cluster cache is built but never used)
// @h c01_past_count | ContentPack::{get_content,get_content_count}; ArrayReader::index; ContentInfo::parse; Idx::is_valid | content count and cluster count (<= 3), the requested content index (any u32), the content info table (symbolic words) | index >= count => Ok(None) without touching anything; an entry pointing past the cluster count => Err, never a panic | count <= 3; O-crc accepts

fn mk_counts(reader: Reader, cip: u64, content_count: u32, cluster_count: u32, table_at: u64) -> ContentPack {
    let pack_header = PackHeader {
        magic: PackKind::Content, app_vendor_id: VendorId::from([0u8; 4]), major_version: 0, minor_version: 2,
        uuid: uuid::Uuid::from_bytes([1u8; 16]), flags: 0, file_size: Size::new(cip + 37 + 64), check_info_pos: Offset::new(cip) };
    let header = ContentPackHeader::new(PackFreeData::from([0u8; 24]), Offset::new(table_at), ClusterCount::from(cluster_count), Offset::new(table_at), ContentCount::from(content_count));
    let content_infos = ArrayReader::new_memory_from_reader(&reader, Offset::new(if table_at == 0 { 60 } else { table_at }), Count::from(content_count)).unwrap();
    // an empty table: just its checksum
    let cluster_ptrs = ArrayReader::new_memory_from_reader(&reader, Offset::new(if table_at == 0 { 60 } else { 28 }), Count::from(0u32)).unwrap();
    ContentPack {
        pack_header, header, content_infos, cluster_ptrs,
        cluster_cache: Mutex::new(LruCache::with_hasher(NonZeroUsize::new(1).unwrap(), FxBuildHasher::default())),
        reader, check_info: OnceLock::new(),
    }
}

fn mk(reader: Reader, cip: u64) -> ContentPack {
    // empty tables: their checksum sits at 60 (see check_range)
    mk_counts(reader, cip, 0, 0, 0)
}

hharness! {
    #[kani::unwind(40)]
    #[kani::stub(crate::bases::assert_slice_crc, crate::verif_common::crc_oracle)]
    fn c04_range_content() {
        if kani::any() { check_range(8, mk) } else { check_range(20, mk) }
    }
}

fn stub_source(_raw: crate::reader::ByteStream, _s: ASize) -> Result<std::sync::Arc<dyn Source>> {
    Err(MissingFeatureError { name: "verif", msg: "decoders are outside the claim" }.into())
}

vharness! {
    #[kani::unwind(20)]
    #[kani::stub(crate::bases::assert_slice_crc, crate::verif_common::crc_oracle)]
    #[kani::stub(crate::reader::content_pack::cluster::zstd_source, stub_source)]
    #[kani::stub(crate::reader::content_pack::cluster::lz4_source, stub_source)]
    #[kani::stub(crate::reader::content_pack::cluster::lzma_source, stub_source)]
    fn c01_past_count() {
        let mut img = [0u8; 32];
        fill_any(&mut img[4..16]);
        let count: u32 = kani::any();
        kani::assume(count <= 3);
        let clusters: u32 = kani::any();
        kani::assume(clusters <= 3);
        // native replay: the table block and the empty cluster table carry real checksums
        native_set_crc(&mut img, 4, 4 * count as usize, true);
        native_set_crc(&mut img, 28, 0, true);
        let pack = mk_counts(Reader::from(img), 20, count, clusters, 4);
        assert!(pack.get_content_count().into_u32() == count, "VERIF: content count");
        let idx: u32 = kani::any();
        // only the paths that stop before the cluster cache
        let word = if idx < count { ref_le_uint(&img[4 + 4 * idx as usize..], 4) as u32 } else { 0 };
        kani::assume(idx >= count || (word >> 12) >= clusters);
        match pack.get_content(ContentIdx::from(idx)) {
            Ok(None) => assert!(idx >= count, "VERIF: an existing content answered 'no such content'"),
            Ok(Some(r)) => { std::mem::forget(r); assert!(false, "VERIF: bytes returned for an address that does not exist"); }
            Err(e) => { forget(e); assert!(idx < count, "VERIF: an address past the count must answer 'no such content', not an error"); }
        }
        kani::cover!(idx == count && count == 3, "first index past the count");
        kani::cover!(idx < count, "dangling cluster index");
        std::mem::forget(pack);
    }
}
