// C14 — written bytes follow the pinned layout; an independent reference decoder recovers the
// fields. Injected at the crate root (all header types are pub(crate)).
#![allow(dead_code, unused_imports, unused_variables)]

use crate::bases::*;
use crate::common::{
    CheckInfo, ContainerPackHeader, ContentInfo, ContentPackHeader, DirectoryPackHeader,
    FullPackKind, ManifestPackHeader, PackHeader, PackInfo, PackKind, PackLocator,
};
use crate::verif_common::*;
use std::borrow::Cow;
use uuid::Uuid;

// @h c14_needed_bytes | needed_bytes::<u64>, ::<u32>, ::<u16>, ::<usize>, ::<i64> | the value | result n is the least n in 1..=8 with v < 2^(8n) (for i64: v >= 0) | 64 bit, unwind 10
// @h c14_prim_write | Serializer::{write_u8,write_u16,write_u32,write_u64,write_usized,write_isized,write_data,close,len} (real, no monitor) | two values per call, width literal per instantiation | bytes == little endian (two's complement) of each value, in call order; returned count == bytes appended | widths 1..8, 2 writes
// @h c14_prim_read | SliceParser::{read_u8,read_u16,read_u32,read_u64,read_usized,read_isized,read_data,skip,global_offset} | 12 bytes, width symbolic | value == reference little endian decode; offset advances by the width; reading past the end is an error not a panic | 12 bytes
// @h c14_sized_offset | SizedOffset::{serialize,parse,new} | offset < 2^48, size < 2^16 | one u64 = offset << 16 | size, both directions | 64 bit
// @h c14_pack_header_w | PackHeader::serialize; FullPackKind::serialize; VendorId/Uuid/Size/Offset serialize | every field | writes == jbk + kind, vendor id, major, minor, uuid, flags, 5 zero bytes, file size, check info pos, 12 zero bytes (60 bytes) | all fields
// @h c14_pack_header_r | PackHeader::parse; FullPackKind::parse; Uuid::parse | reference encoding with symbolic fields, kind case split | fields recovered; version != (0,2) => Err(Version); bad magic or kind => Err | 60 bytes
// @h c14_headers_w | ContentPackHeader / DirectoryPackHeader / ManifestPackHeader / ContainerPackHeader / PackLocator / CheckInfo ::serialize | every field | writes == the pinned field order, widths and padding | all fields
// @h c14_headers_r | the same ::parse on reference encodings | every field | fields recovered, exact consumption | <= 60 bytes each
// @h c14_check_info | CheckInfo::{serialize,parse}; CheckKind::block_size | kind, 32 hash bytes | kind byte then 32 bytes; block sizes 5 / 37; unknown kind => Err | -

// @h c14_content_header_r | ContentPackHeader::parse | 60 byte reference encoding, all fields symbolic | fields recovered, exact consumption | 60 bytes
// @h c14_directory_header_r | DirectoryPackHeader::parse | 60 byte reference encoding | fields recovered, exact consumption | 60 bytes
// @h c14_manifest_container_header_r | ManifestPackHeader::parse; ContainerPackHeader::parse; PackLocator::parse | reference encodings | fields recovered, exact consumption | 60 / 60 / 32 bytes
fn any_kind() -> (PackKind, u8) {
    let k: u8 = kani::any();
    kani::assume(k < 4);
    match k {
        0 => (PackKind::Manifest, b'm'),
        1 => (PackKind::Directory, b'd'),
        2 => (PackKind::Content, b'c'),
        _ => (PackKind::Container, b'C'),
    }
}

fn any24() -> [u8; 24] {
    let mut a = [0u8; 24];
    fill_any(&mut a);
    a
}
fn any16() -> [u8; 16] {
    let mut a = [0u8; 16];
    fill_any(&mut a);
    a
}

// ---- needed_bytes ------------------------------------------------------------------------------
fn nb_spec(v: u64, n: usize) -> bool {
    in_width_range(v, n)
}

vharness! {
    #[kani::unwind(10)]
    fn c14_needed_bytes() {
        let v: u64 = kani::any();
        assert!(nb_spec(v, needed_bytes(v) as usize), "VERIF: needed_bytes::<u64> is not the least sufficient width");
        let v32: u32 = kani::any();
        assert!(nb_spec(v32 as u64, needed_bytes(v32) as usize), "VERIF: needed_bytes::<u32>");
        let v16: u16 = kani::any();
        assert!(nb_spec(v16 as u64, needed_bytes(v16) as usize), "VERIF: needed_bytes::<u16>");
        let vs: usize = kani::any();
        assert!(nb_spec(vs as u64, needed_bytes(vs) as usize), "VERIF: needed_bytes::<usize>");
        let vi: i64 = kani::any();
        kani::assume(vi >= 0);
        assert!(nb_spec(vi as u64, needed_bytes(vi) as usize), "VERIF: needed_bytes::<i64>");
        kani::cover!(needed_bytes(v) as usize == 8, "8 bytes");
        kani::cover!(v == 0, "zero needs one byte");
    }
}

// ---- primitive writes (real) -------------------------------------------------------------------
fn prim_write_w(w: usize, bs: ByteSize) {
    let a: u64 = kani::any();
    let b: i64 = kani::any();
    kani::assume(w >= 8 || a < (1u64 << (8 * w)));
    kani::assume(w >= 8 || (b >= -(1i64 << (8 * w - 1)) && b < (1i64 << (8 * w - 1))));
    let mut ser = Serializer::new(BlockCheck::None);
    match ser.write_usized(a, bs) { Ok(n) => assert!(n == w, "VERIF: write_usized count"), Err(e) => { forget(e); assert!(false); } }
    assert!(ser.len() == w, "VERIF: serializer length");
    match ser.write_isized(b, bs) { Ok(n) => assert!(n == w, "VERIF: write_isized count"), Err(e) => { forget(e); assert!(false); } }
    let (buf, crc) = ser.close();
    assert!(crc.is_none(), "VERIF: unchecked serializer produced a checksum");
    assert!(buf.len() == 2 * w, "VERIF: bytes appended");
    assert!(ref_le_uint(&buf, w) == a, "VERIF: write_usized is not little endian");
    assert!(ref_le_int(&buf[w..], w) == b, "VERIF: write_isized is not little endian two's complement");
    std::mem::forget(buf);
}

macro_rules! prim_write_inst {
    ($name:ident, $w:expr, $bs:expr) => {
        vharness! {
            #[kani::unwind(10)]
            fn $name() { prim_write_w($w, $bs) }
        }
    };
}
prim_write_inst!(c14_prim_write_w1, 1, ByteSize::U1);
prim_write_inst!(c14_prim_write_w2, 2, ByteSize::U2);
prim_write_inst!(c14_prim_write_w3, 3, ByteSize::U3);
prim_write_inst!(c14_prim_write_w4, 4, ByteSize::U4);
prim_write_inst!(c14_prim_write_w5, 5, ByteSize::U5);
prim_write_inst!(c14_prim_write_w6, 6, ByteSize::U6);
prim_write_inst!(c14_prim_write_w7, 7, ByteSize::U7);
prim_write_inst!(c14_prim_write_w8, 8, ByteSize::U8);

vharness! {
    #[kani::unwind(20)]
    fn c14_prim_write_fixed() {
        let a: u8 = kani::any();
        let b: u16 = kani::any();
        let c: u32 = kani::any();
        let d: u64 = kani::any();
        let e: [u8; 3] = [kani::any(), kani::any(), kani::any()];
        let mut ser = Serializer::new(BlockCheck::None);
        let mut n = 0;
        match ser.write_u8(a) { Ok(k) => n += k, Err(x) => forget(x) }
        match ser.write_u16(b) { Ok(k) => n += k, Err(x) => forget(x) }
        match ser.write_u32(c) { Ok(k) => n += k, Err(x) => forget(x) }
        match ser.write_u64(d) { Ok(k) => n += k, Err(x) => forget(x) }
        match ser.write_data(&e) { Ok(k) => n += k, Err(x) => forget(x) }
        assert!(n == 18 && ser.len() == 18, "VERIF: written counts");
        let (buf, _) = ser.close();
        assert!(buf.len() == 18);
        assert!(buf[0] == a, "VERIF: write_u8");
        assert!(ref_le_uint(&buf[1..], 2) == b as u64, "VERIF: write_u16 is not little endian");
        assert!(ref_le_uint(&buf[3..], 4) == c as u64, "VERIF: write_u32 is not little endian");
        assert!(ref_le_uint(&buf[7..], 8) == d, "VERIF: write_u64 is not little endian");
        assert!(buf[15] == e[0] && buf[16] == e[1] && buf[17] == e[2], "VERIF: write_data");
        std::mem::forget(buf);
    }
}

// ---- primitive reads ----------------------------------------------------------------------------
vharness! {
    #[kani::unwind(14)]
    fn c14_prim_read() {
        let mut buf = [0u8; 12];
        fill_any(&mut buf);
        let base: u64 = kani::any();
        kani::assume(base < (1u64 << 40));
        let mut p = SliceParser::new(Cow::Borrowed(&buf[..]), Offset::new(base));
        let skip: usize = kani::any();
        kani::assume(skip <= 3);
        match p.skip(skip) { Ok(()) => {}, Err(e) => { forget(e); assert!(false, "VERIF: skip inside the slice failed"); } }
        assert!(p.global_offset().into_u64() == base + skip as u64, "VERIF: parser global offset");
        let w: usize = kani::any();
        kani::assume(w >= 1 && w <= 8);
        let signed: bool = kani::any();
        if signed {
            match p.read_isized(byte_size(w)) {
                Ok(v) => assert!(v == ref_le_int(&buf[skip..], w), "VERIF: read_isized differs from the reference decode"),
                Err(e) => { forget(e); assert!(false, "VERIF: read inside the slice failed"); }
            }
        } else {
            match p.read_usized(byte_size(w)) {
                Ok(v) => assert!(v == ref_le_uint(&buf[skip..], w), "VERIF: read_usized differs from the reference decode"),
                Err(e) => { forget(e); assert!(false, "VERIF: read inside the slice failed"); }
            }
        }
        assert!(p.global_offset().into_u64() == base + (skip + w) as u64, "VERIF: parser did not advance by the width");
        // reading past the end is an error
        let left = 12 - skip - w;
        match p.read_u64() {
            Ok(v) => {
                assert!(left >= 8, "VERIF: read past the end of the slice");
                assert!(v == ref_le_uint(&buf[skip + w..], 8), "VERIF: read_u64");
            }
            Err(e) => { forget(e); assert!(left < 8, "VERIF: read inside the slice failed"); }
        }
        kani::cover!(w == 3 && signed, "3 byte signed");
        kani::cover!(left < 8, "short read");
    }
}

vharness! {
    #[kani::unwind(20)]
    fn c14_prim_read_fixed() {
        let mut buf = [0u8; 16];
        fill_any(&mut buf);
        let mut p = SliceParser::new(Cow::Borrowed(&buf[..]), Offset::zero());
        match p.read_u8() { Ok(v) => assert!(v == buf[0], "VERIF: read_u8"), Err(e) => { forget(e); assert!(false); } }
        match p.read_u16() { Ok(v) => assert!(v as u64 == ref_le_uint(&buf[1..], 2), "VERIF: read_u16 is not little endian"), Err(e) => { forget(e); assert!(false); } }
        match p.read_u32() { Ok(v) => assert!(v as u64 == ref_le_uint(&buf[3..], 4), "VERIF: read_u32 is not little endian"), Err(e) => { forget(e); assert!(false); } }
        match p.read_u64() { Ok(v) => assert!(v == ref_le_uint(&buf[7..], 8), "VERIF: read_u64 is not little endian"), Err(e) => { forget(e); assert!(false); } }
        let mut d = [0u8; 1];
        match p.read_data(&mut d) { Ok(()) => assert!(d[0] == buf[15], "VERIF: read_data"), Err(e) => { forget(e); assert!(false); } }
        match p.read_u8() { Ok(_) => assert!(false, "VERIF: read past the end"), Err(e) => forget(e) }
    }
}

// ---- sized offset -------------------------------------------------------------------------------
wharness! {
    #[kani::unwind(10)]
    fn c14_sized_offset_w() {
        let off: u64 = kani::any();
        let size: usize = kani::any();
        kani::assume(off < (1u64 << 48) && size <= 0xFFFF);
        let so = SizedOffset::new(ASize::new(size), Offset::new(off));
        log_reset();
        let mut ser = Serializer::new(BlockCheck::None);
        match so.serialize(&mut ser) {
            Ok(_) => { let (buf, _) = ser.close(); expect_writes(&[wu((off << 16) | size as u64, 8)], &buf); std::mem::forget(buf); }
            Err(e) => { forget(e); assert!(false); }
        }
        kani::cover!(off == (1u64 << 48) - 1 && size == 0xFFFF, "largest sized offset");
    }
}

vharness! {
    #[kani::unwind(10)]
    fn c14_sized_offset_r() {
        let off: u64 = kani::any();
        let size: u64 = kani::any();
        kani::assume(off < (1u64 << 48) && size <= 0xFFFF);
        let mut b = [0u8; 8];
        put_le(&mut b, 0, (off << 16) | size, 8);
        let mut p = SliceParser::new(Cow::Borrowed(&b[..]), Offset::zero());
        match SizedOffset::parse(&mut p) {
            Ok(so) => assert!(so.offset.into_u64() == off && so.size.into_u64() == size, "VERIF: sized offset decode"),
            Err(e) => { forget(e); assert!(false); }
        }
    }
}

// ---- pack header ---------------------------------------------------------------------------------
wharness! {
    #[kani::unwind(40)]
    fn c14_pack_header_w() {
        let (kind, kb) = any_kind();
        let vendor: [u8; 4] = [kani::any(), kani::any(), kani::any(), kani::any()];
        let uuid = any16();
        let h = PackHeader {
            magic: kind, app_vendor_id: VendorId::from(vendor), major_version: kani::any(), minor_version: kani::any(),
            uuid: Uuid::from_bytes(uuid), flags: kani::any(), file_size: Size::new(kani::any()), check_info_pos: Offset::new(kani::any()) };
        log_reset();
        let mut ser = Serializer::new(BlockCheck::None);
        match h.serialize(&mut ser) {
            Ok(n) => {
                assert!(n == 60, "VERIF: pack header is 60 bytes");
                let (buf, _) = ser.close();
                expect_writes(&[
                    wdb(b"jbk", 3), wu(kb as u64, 1), wdb(&vendor, 4), wu(h.major_version as u64, 1), wu(h.minor_version as u64, 1),
                    wdb(&uuid, 16), wu(h.flags as u64, 1), wd(0, 5), wu(h.file_size.into_u64(), 8), wu(h.check_info_pos.into_u64(), 8), wd(0, 12),
                ], &buf);
                std::mem::forget(buf);
            }
            Err(e) => { forget(e); assert!(false); }
        }
        assert!(<PackHeader as SizedParsable>::SIZE == 60 && PackHeader::BLOCK_SIZE == 64, "VERIF: pack header sizes");
    }
}

fn pack_header_r(kb: u8, major: u8, minor: u8, magic_ok: bool) {
    let mut b = [0u8; 60];
    b[0] = b'j'; b[1] = b'b'; b[2] = if magic_ok { b'k' } else { b'x' };
    b[3] = kb;
    fill_any(&mut b[4..8]);
    b[8] = major; b[9] = minor;
    fill_any(&mut b[10..27]);
    fill_any(&mut b[32..48]);
    let mut p = SliceParser::new(Cow::Borrowed(&b[..]), Offset::zero());
    match PackHeader::parse(&mut p) {
        Ok(h) => {
            assert!(magic_ok && major == 0 && minor == 2, "VERIF: pack header with a wrong magic or version accepted");
            let k = match h.magic { PackKind::Manifest => b'm', PackKind::Directory => b'd', PackKind::Content => b'c', PackKind::Container => b'C' };
            assert!(k == kb, "VERIF: pack kind");
            assert!(h.app_vendor_id[0] == b[4] && h.app_vendor_id[3] == b[7], "VERIF: vendor id");
            assert!(h.major_version == 0 && h.minor_version == 2);
            let u = h.uuid.as_bytes();
            assert!(u[0] == b[10] && u[7] == b[17] && u[15] == b[25], "VERIF: uuid");
            assert!(h.flags == b[26], "VERIF: flags");
            assert!(h.file_size.into_u64() == ref_le_uint(&b[32..], 8), "VERIF: file size");
            assert!(h.check_info_pos.into_u64() == ref_le_uint(&b[40..], 8), "VERIF: check info position");
            match p.read_u8() { Ok(_) => assert!(false, "VERIF: header not consumed exactly"), Err(e) => forget(e) }
        }
        Err(e) => {
            let is_version = matches!(*e, ErrorKind::Version(_));
            forget(e);
            assert!(!(magic_ok && major == 0 && minor == 2 && (kb == b'm' || kb == b'd' || kb == b'c' || kb == b'C')), "VERIF: well formed pack header rejected");
            if magic_ok && (kb == b'm' || kb == b'd' || kb == b'c' || kb == b'C') {
                assert!(is_version, "VERIF: a wrong version must be reported as a version error");
            }
        }
    }
}

vharness! {
    #[kani::unwind(30)]
    fn c14_pack_header_r() {
        // concrete discriminants per call
        let k: u8 = kani::any();
        kani::assume(k < 4);
        match k { 0 => pack_header_r(b'm', 0, 2, true), 1 => pack_header_r(b'd', 0, 2, true), 2 => pack_header_r(b'c', 0, 2, true), _ => pack_header_r(b'C', 0, 2, true) }
        kani::cover!(k == 3, "container kind");
    }
}
vharness! {
    #[kani::unwind(30)]
    fn c14_pack_header_r_bad() {
        let k: u8 = kani::any();
        kani::assume(k < 6);
        match k {
            0 => pack_header_r(b'c', 0, 1, true), 1 => pack_header_r(b'c', 1, 2, true), 2 => pack_header_r(b'c', 0, 3, true),
            3 => pack_header_r(b'c', 0, 2, false), 4 => pack_header_r(b'x', 0, 2, true), _ => pack_header_r(b'm', 2, 0, true),
        }
        kani::cover!(k == 0, "older minor");
        kani::cover!(k == 3, "bad magic");
    }
}

// ---- other headers, writer side -----------------------------------------------------------------
wharness! {
    #[kani::unwind(40)]
    fn c14_headers_w() {
        let fd = any24();
        let a: u64 = kani::any();
        let b: u64 = kani::any();
        let c: u64 = kani::any();
        let n1: u32 = kani::any();
        let n2: u32 = kani::any();
        let n3: u8 = kani::any();
        let n16: u16 = kani::any();
        // content pack header
        let h = ContentPackHeader::new(PackFreeData::from(fd), Offset::new(a), ClusterCount::from(n1), Offset::new(b), ContentCount::from(n2));
        log_reset();
        let mut ser = Serializer::new(BlockCheck::None);
        match h.serialize(&mut ser) {
            Ok(n) => { assert!(n == 60, "VERIF: content pack header is 60 bytes"); let (buf, _) = ser.close();
                expect_writes(&[wu(b, 8), wu(a, 8), wu(n2 as u64, 4), wu(n1 as u64, 4), wd(0, 12), wdb(&fd, 24)], &buf); std::mem::forget(buf); }
            Err(e) => { forget(e); assert!(false); }
        }
        // directory pack header
        let h = DirectoryPackHeader::new(PackFreeData::from(fd), (IndexCount::from(n1), Offset::new(a)), (ValueStoreCount::from(n3), Offset::new(b)), (EntryStoreCount::from(n2), Offset::new(c)));
        log_reset();
        let mut ser = Serializer::new(BlockCheck::None);
        match h.serialize(&mut ser) {
            Ok(n) => { assert!(n == 60, "VERIF: directory pack header is 60 bytes"); let (buf, _) = ser.close();
                expect_writes(&[wu(a, 8), wu(c, 8), wu(b, 8), wu(n1 as u64, 4), wu(n2 as u64, 4), wu(n3 as u64, 1), wd(0, 3), wdb(&fd, 24)], &buf); std::mem::forget(buf); }
            Err(e) => { forget(e); assert!(false); }
        }
        // manifest pack header
        let off: u64 = kani::any();
        let sz: usize = kani::any();
        kani::assume(off < (1u64 << 48) && sz <= 0xFFFF);
        let h = ManifestPackHeader::new(PackFreeData::from(fd), PackCount::from(n16), SizedOffset::new(ASize::new(sz), Offset::new(off)));
        log_reset();
        let mut ser = Serializer::new(BlockCheck::None);
        match h.serialize(&mut ser) {
            Ok(n) => { assert!(n == 60, "VERIF: manifest pack header is 60 bytes"); let (buf, _) = ser.close();
                expect_writes(&[wu(n16 as u64, 2), wu((off << 16) | sz as u64, 8), wd(0, 26), wdb(&fd, 24)], &buf); std::mem::forget(buf); }
            Err(e) => { forget(e); assert!(false); }
        }
        // container pack header
        let h = ContainerPackHeader::new(Offset::new(a), PackCount::from(n16), PackFreeData::from(fd));
        log_reset();
        let mut ser = Serializer::new(BlockCheck::None);
        match h.serialize(&mut ser) {
            Ok(n) => { assert!(n == 60, "VERIF: container pack header is 60 bytes"); let (buf, _) = ser.close();
                expect_writes(&[wu(a, 8), wu(n16 as u64, 2), wd(0, 26), wdb(&fd, 24)], &buf); std::mem::forget(buf); }
            Err(e) => { forget(e); assert!(false); }
        }
        // pack locator
        let uuid = any16();
        let l = PackLocator::new(Uuid::from_bytes(uuid), Size::new(a), Offset::new(b));
        log_reset();
        let mut ser = Serializer::new(BlockCheck::None);
        match l.serialize(&mut ser) {
            Ok(n) => { assert!(n == 32, "VERIF: pack locator is 32 bytes"); let (buf, _) = ser.close();
                expect_writes(&[wdb(&uuid, 16), wu(a, 8), wu(b, 8)], &buf); std::mem::forget(buf); }
            Err(e) => { forget(e); assert!(false); }
        }
        assert!(<ContentPackHeader as SizedParsable>::SIZE == 60 && <DirectoryPackHeader as SizedParsable>::SIZE == 60
            && <ManifestPackHeader as SizedParsable>::SIZE == 60 && <ContainerPackHeader as SizedParsable>::SIZE == 60
            && <PackLocator as SizedParsable>::SIZE == 32 && <PackInfo as SizedParsable>::SIZE == 252, "VERIF: header sizes");
    }
}

// ---- other headers, reader side -----------------------------------------------------------------
vharness! {
    #[kani::unwind(40)]
    fn c14_content_header_r() {
        let mut b = [0u8; 60];
        fill_any(&mut b[0..24]);
        fill_any(&mut b[36..60]);
        let mut p = SliceParser::new(Cow::Borrowed(&b[..]), Offset::zero());
        match ContentPackHeader::parse(&mut p) {
            Ok(h) => {
                assert!(h.content_ptr_pos.into_u64() == ref_le_uint(&b[0..], 8), "VERIF: content ptr pos");
                assert!(h.cluster_ptr_pos.into_u64() == ref_le_uint(&b[8..], 8), "VERIF: cluster ptr pos");
                assert!(h.content_count.into_u64() == ref_le_uint(&b[16..], 4), "VERIF: content count");
                assert!(h.cluster_count.into_u64() == ref_le_uint(&b[20..], 4), "VERIF: cluster count");
                assert!(h.free_data[0] == b[36] && h.free_data[23] == b[59], "VERIF: free data");
                match p.read_u8() { Ok(_) => assert!(false, "VERIF: header not consumed exactly"), Err(e) => forget(e) }
            }
            Err(e) => { forget(e); assert!(false, "VERIF: content pack header rejected"); }
        }
    }
}

vharness! {
    #[kani::unwind(40)]
    fn c14_directory_header_r() {
        let mut b = [0u8; 60];
        fill_any(&mut b[0..33]);
        fill_any(&mut b[36..60]);
        let mut p = SliceParser::new(Cow::Borrowed(&b[..]), Offset::zero());
        match DirectoryPackHeader::parse(&mut p) {
            Ok(h) => {
                assert!(h.index_ptr_pos.into_u64() == ref_le_uint(&b[0..], 8), "VERIF: index ptr pos");
                assert!(h.entry_store_ptr_pos.into_u64() == ref_le_uint(&b[8..], 8), "VERIF: entry store ptr pos");
                assert!(h.value_store_ptr_pos.into_u64() == ref_le_uint(&b[16..], 8), "VERIF: value store ptr pos");
                assert!(h.index_count.into_u64() == ref_le_uint(&b[24..], 4), "VERIF: index count");
                assert!(h.entry_store_count.into_u64() == ref_le_uint(&b[28..], 4), "VERIF: entry store count");
                assert!(h.value_store_count.into_u64() == b[32] as u64, "VERIF: value store count");
                assert!(h.free_data[0] == b[36] && h.free_data[23] == b[59], "VERIF: free data");
                match p.read_u8() { Ok(_) => assert!(false, "VERIF: header not consumed exactly"), Err(e) => forget(e) }
            }
            Err(e) => { forget(e); assert!(false, "VERIF: directory pack header rejected"); }
        }
    }
}

vharness! {
    #[kani::unwind(40)]
    fn c14_manifest_container_header_r() {
        let mut b = [0u8; 60];
        fill_any(&mut b[0..10]);
        fill_any(&mut b[36..60]);
        let mut p = SliceParser::new(Cow::Borrowed(&b[..]), Offset::zero());
        match ManifestPackHeader::parse(&mut p) {
            Ok(h) => {
                assert!(h.pack_count.into_u64() == ref_le_uint(&b[0..], 2), "VERIF: pack count");
                let w = ref_le_uint(&b[2..], 8);
                assert!(h.value_store_posinfo.offset.into_u64() == w >> 16 && h.value_store_posinfo.size.into_u64() == w & 0xFFFF, "VERIF: value store sized offset");
                assert!(h.free_data[0] == b[36] && h.free_data[23] == b[59], "VERIF: free data");
                match p.read_u8() { Ok(_) => assert!(false, "VERIF: header not consumed exactly"), Err(e) => forget(e) }
            }
            Err(e) => { forget(e); assert!(false, "VERIF: manifest pack header rejected"); }
        }
        let mut p = SliceParser::new(Cow::Borrowed(&b[..]), Offset::zero());
        match ContainerPackHeader::parse(&mut p) {
            Ok(h) => {
                assert!(h.pack_locators_pos.into_u64() == ref_le_uint(&b[0..], 8), "VERIF: pack locators pos");
                assert!(h.pack_count.into_u64() == ref_le_uint(&b[8..], 2), "VERIF: pack count");
                assert!(h.free_data[0] == b[36] && h.free_data[23] == b[59], "VERIF: free data");
                match p.read_u8() { Ok(_) => assert!(false, "VERIF: header not consumed exactly"), Err(e) => forget(e) }
            }
            Err(e) => { forget(e); assert!(false, "VERIF: container pack header rejected"); }
        }
        let mut l = [0u8; 32];
        fill_any(&mut l);
        let mut p = SliceParser::new(Cow::Borrowed(&l[..]), Offset::zero());
        match PackLocator::parse(&mut p) {
            Ok(h) => {
                let u = h.uuid.as_bytes();
                assert!(u[0] == l[0] && u[15] == l[15], "VERIF: locator uuid");
                assert!(h.pack_size.into_u64() == ref_le_uint(&l[16..], 8), "VERIF: locator size");
                assert!(h.pack_pos.into_u64() == ref_le_uint(&l[24..], 8), "VERIF: locator position");
            }
            Err(e) => { forget(e); assert!(false, "VERIF: pack locator rejected"); }
        }
    }
}

// ---- check info ------------------------------------------------------------------------------------
wharness! {
    #[kani::unwind(36)]
    fn c14_check_info_w() {
        use crate::common::CheckKind;
        assert!(CheckKind::None.block_size().into_u64() == 5 && CheckKind::Blake3.block_size().into_u64() == 37, "VERIF: check block sizes");
        let ci = CheckInfo::new_none();
        log_reset();
        let mut ser = Serializer::new(BlockCheck::None);
        match ci.serialize(&mut ser) {
            Ok(n) => { assert!(n == 1); let (buf, _) = ser.close(); expect_writes(&[wu(0, 1)], &buf); std::mem::forget(buf); }
            Err(e) => { forget(e); assert!(false); }
        }
    }
}

vharness! {
    #[kani::unwind(36)]
    fn c14_check_info_r() {
        let mut b = [0u8; 33];
        fill_any(&mut b[1..]);
        let k: u8 = kani::any();
        kani::assume(k < 3);
        // concrete kind byte per call
        let parse = |b: &[u8; 33], len: usize| {
            let mut p = SliceParser::new(Cow::Borrowed(&b[..len]), Offset::zero());
            CheckInfo::parse(&mut p)
        };
        match k {
            0 => { b[0] = 0; match parse(&b, 1) { Ok(ci) => {
                        // a "none" check info verifies anything, as specified
                        let mut empty: &[u8] = &[];
                        match ci.check(&mut empty) { Ok(v) => assert!(v, "VERIF: none check"), Err(e) => forget(e) }
                    }, Err(e) => { forget(e); assert!(false, "VERIF: check info none rejected"); } } }
            1 => { b[0] = 1; match parse(&b, 33) { Ok(ci) => {
                        // round trip through the real serializer: the hash bytes are kept
                        let mut ser = Serializer::new(BlockCheck::None);
                        match ci.serialize(&mut ser) { Ok(n) => assert!(n == 33), Err(e) => forget(e) }
                        let (out, _) = ser.close();
                        assert!(out.len() == 33 && out[0] == 1 && out[1] == b[1] && out[17] == b[17] && out[32] == b[32], "VERIF: check info hash bytes");
                        std::mem::forget(out);
                    }, Err(e) => { forget(e); assert!(false, "VERIF: check info blake3 rejected"); } } }
            _ => { b[0] = 2; match parse(&b, 33) { Ok(_) => assert!(false, "VERIF: unknown check kind accepted"), Err(e) => forget(e) } }
        }
        kani::cover!(k == 1, "blake3");
    }
}
