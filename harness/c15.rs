// C15 — deferred values: the shared position cell, the handle returned by add_entry, and the point
// at which a reference property is read (column sizing, entry bytes, index offset).
// Injected as a child module of `crate::creator::directory_pack::entry_store` (sees EntryStore's
// and BasicEntry's fields).
//
// What is NOT here (DESIGN.md section 5): EntryStore::finalize — the (re)assignment of positions
// after each sort pass is rayon (par_sort_unstable_by / par_iter_mut), which Kani cannot compile;
// the harnesses below decide that whatever position is assigned LAST reaches every holder of the
// handle, the column width and the bytes written.
#![allow(dead_code, unused_imports, unused_variables)]

use super::super::layout;
use super::super::schema;
use super::super::{BasicEntry, EntryTrait, FullEntryTrait, Index, Value};
use super::EntryStore;
use crate::bases::*;
use crate::creator::private::WritableTell;
use crate::verif_common::*;

type PN = &'static str;
type VN = &'static str;

// @h c15_cell | Vow::{new,fulfil,get,bind}; Bound::{get,clone,eq}; Word::from(Bound) / Word::get; SyncType for EntryIdx/u64 | initial value, two successive positions (u32), handles taken before, between and after the assignments | every handle and every Word derived from it reports the position assigned last; handles of different cells are independent | 2 assignments, 2 cells
// @h c15_add_entry | EntryStore::{new,add_entry,len}; BasicEntry::{set_idx,get_idx} (real BasicEntry built by struct literal) | two entries added to an unsorted store; a later re-assignment of the first entry's position (symbolic) | the handle returned by add_entry reports the insertion position, is the entry's own cell (a later set_idx on the stored entry shows through it) and is not shared between entries | 2 entries; Vec capacity hint 2
// @h c15_ref_column | schema::Property::{new_uint,process,finalize}; layout::Properties::serialize_entry UnsignedWord arm; Word::from(Bound<EntryIdx>) | a reference property bound to another entry's position; the position is assigned (twice, symbolic) after the value was built and before the column is processed | the column is sized from, and the entry bytes hold, the position assigned last (never the value the cell had when the reference was created) | 2 referencing entries, u32 positions; primitive writes through the ghost log
// @h c15_sref_column | same for SignedWord (Word<i64> closure over a Bound<EntryIdx>) | position u32 | bytes hold the final position, width fits | 2 entries
// @h c15_index_offset | Index::{new,serialize_tail} with an offset bound to an entry position | position assigned after the index was created | the index tail holds the position assigned last | u32

fn pos(b: &Bound<EntryIdx>) -> u32 {
    b.get().into_u32()
}

vharness! {
    #[kani::unwind(4)]
    fn c15_cell() {
        let init: u32 = kani::any();
        let p1: u32 = kani::any();
        let p2: u32 = kani::any();
        let vow = Vow::new(EntryIdx::from(init));
        let other = Vow::new(EntryIdx::from(init));
        let before = vow.bind();
        let w_before: Word<u64> = before.clone().into();
        assert!(pos(&before) == init && vow.get().into_u32() == init, "VERIF: a fresh cell does not hold its initial value");
        vow.fulfil(EntryIdx::from(p1));
        let between = vow.bind();
        let w_between: Word<EntryIdx> = between.clone().into();
        assert!(pos(&before) == p1 && pos(&between) == p1, "VERIF: a handle does not report the assigned position");
        vow.fulfil(EntryIdx::from(p2));
        let after = vow.bind();
        assert!(pos(&before) == p2 && pos(&between) == p2 && pos(&after) == p2, "VERIF: a handle taken earlier does not report the position assigned last");
        assert!(w_before.get() == p2 as u64 && w_between.get().into_u32() == p2, "VERIF: a deferred value built from a handle does not report the position assigned last");
        assert!(before == after, "VERIF: handles of one cell compare different");
        assert!(pos(&other.bind()) == init, "VERIF: assigning one cell changed another");
        kani::cover!(p1 != p2 && p2 != init && p2 > 0xFFFF, "re-assignment to a different wide position");
        std::mem::forget((vow, other, before, between, after, w_before, w_between));
    }
}

fn basic(idx: Vow<EntryIdx>) -> BasicEntry<PN, VN> {
    BasicEntry {
        variant_name: None,
        names: Vec::new().into_boxed_slice(),
        values: Vec::new().into_boxed_slice(),
        idx,
    }
}

fn empty_schema() -> schema::Schema<PN, VN> {
    schema::Schema {
        common: schema::CommonProperties::new(Vec::new()),
        variants: Vec::new(),
        sort_keys: None,
    }
}

vharness! {
    #[kani::unwind(4)]
    fn c15_add_entry() {
        let i0: u32 = kani::any();
        let i1: u32 = kani::any();
        let later: u32 = kani::any();
        let mut store: EntryStore<PN, VN, BasicEntry<PN, VN>> = EntryStore::new(empty_schema(), Some(2));
        let h0 = store.add_entry(basic(Vow::new(EntryIdx::from(i0))));
        assert!(store.len() == 1 && pos(&h0) == 0, "VERIF: the handle of the first entry does not report position 0");
        let h1 = store.add_entry(basic(Vow::new(EntryIdx::from(i1))));
        assert!(store.len() == 2 && pos(&h1) == 1 && pos(&h0) == 0, "VERIF: the handle returned by add_entry does not report the insertion position");
        // what finalize does after a sort pass: a new position for the stored entry
        store.entries[0].set_idx(EntryIdx::from(later));
        assert!(pos(&h0) == later, "VERIF: the handle returned by add_entry is not the stored entry's own position cell");
        assert!(pos(&h1) == 1, "VERIF: two entries share one position cell");
        assert!(pos(&store.entries[0].get_idx()) == later && pos(&store.entries[1].get_idx()) == 1);
        kani::cover!(later > 1, "moved away");
        std::mem::forget((store, h0, h1));
    }
}

struct One {
    v: Value,
}
impl EntryTrait<PN, VN> for One {
    fn variant_name(&self) -> Option<MayRef<VN>> {
        None
    }
    fn value<'a>(&'a self, _name: &PN) -> MayRef<'a, Value> {
        MayRef::Borrowed(&self.v)
    }
    fn value_count(&self) -> PropertyCount {
        1u8.into()
    }
    fn set_idx(&mut self, _idx: EntryIdx) {}
    fn get_idx(&self) -> Bound<EntryIdx> {
        Vow::new(EntryIdx::from(0)).bind()
    }
}

fn fits_u(v: u64, w: usize) -> bool {
    w >= 8 || v < (1u64 << (8 * w))
}

/// one property, one entry -> the ghost log (symbolically) or the bytes (natively)
fn ser_one(prop: &layout::Property<PN>, e: &One) -> Option<Vec<u8>> {
    log_reset();
    let mut ser = Serializer::new(BlockCheck::None);
    let r = layout::Properties::<PN>::serialize_entry::<VN>(std::slice::from_ref(prop).iter(), None, e, &mut ser);
    match r {
        Ok(n) => {
            let (buf, _) = ser.close();
            assert!(n == prop.size() as usize, "VERIF: bytes written for a property differ from its declared entry size");
            Some(buf)
        }
        Err(e) => {
            forget(e);
            None
        }
    }
}

fn ref_column(signed: bool) {
    // two referenced entries; their handles are taken, and the reference values built, while
    // the cells still hold the insertion positions
    let a = Vow::new(EntryIdx::from(0u32));
    let b = Vow::new(EntryIdx::from(1u32));
    let mk = |h: Bound<EntryIdx>| -> Value {
        if signed {
            let f: Box<dyn Fn() -> i64 + Sync + Send> = Box::new(move || h.get().into_u32() as i64);
            Value::SignedWord(Box::new(Word::from(f)))
        } else {
            Value::UnsignedWord(Box::new(Word::from(h)))
        }
    };
    let ea = One { v: mk(a.bind()) };
    let eb = One { v: mk(b.bind()) };
    // sort passes: positions assigned, then re-assigned
    let pa1: u32 = kani::any();
    let pa: u32 = kani::any();
    let pb: u32 = kani::any();
    a.fulfil(EntryIdx::from(pa1));
    a.fulfil(EntryIdx::from(pa));
    b.fulfil(EntryIdx::from(pb));
    // columns are sized after positions are final
    let mut p = if signed { schema::Property::<PN>::new_sint("p") } else { schema::Property::<PN>::new_uint("p") };
    p.process::<VN>(&ea);
    p.process::<VN>(&eb);
    let lp = p.finalize();
    let (size, constant) = match &lp {
        layout::Property::UnsignedInt { size, default, .. } => {
            assert!(!signed, "VERIF: wrong layout kind");
            if let Some(d) = default {
                assert!(*d == pa as u64, "VERIF: default of a constant reference column is not the final position");
            }
            (*size as usize, default.is_some())
        }
        layout::Property::SignedInt { size, default, .. } => {
            assert!(signed, "VERIF: wrong layout kind");
            if let Some(d) = default {
                assert!(*d == pa as i64, "VERIF: default of a constant reference column is not the final position");
            }
            (*size as usize, default.is_some())
        }
        _ => {
            assert!(false, "VERIF: wrong layout kind");
            return;
        }
    };
    assert!(constant == (pa == pb), "VERIF: a reference column is constant iff the final positions are equal");
    let second: bool = kani::any();
    let (e, want) = if second { (&eb, pb) } else { (&ea, pa) };
    match ser_one(&lp, e) {
        Some(buf) => {
            if constant {
                expect_writes(&[], &buf);
            } else {
                if signed {
                    assert!(size >= 8 || (want as i64) < (1i64 << (8 * size - 1)), "VERIF: final position does not fit the width of the reference column");
                    expect_writes(&[wi(want as i64, size)], &buf);
                } else {
                    assert!(fits_u(want as u64, size), "VERIF: final position does not fit the width of the reference column");
                    expect_writes(&[wu(want as u64, size)], &buf);
                }
            }
            std::mem::forget(buf);
        }
        None => assert!(false, "VERIF: serialize_entry failed on a reference property"),
    }
    kani::cover!(pa1 != pa && pa != pb && want > 0xFFFF, "re-assigned, varying, wide");
    kani::cover!(pa == pb, "constant column");
    std::mem::forget((a, b, ea, eb, lp));
}

wharness! {
    #[kani::unwind(10)]
    #[kani::stub(crate::bases::Serializer::close, crate::bases::verif_ser::stub_close)]
    fn c15_ref_column() { ref_column(false) }
}

wharness! {
    #[kani::unwind(10)]
    #[kani::stub(crate::bases::Serializer::close, crate::bases::verif_ser::stub_close)]
    fn c15_sref_column() { ref_column(true) }
}

wharness! {
    #[kani::unwind(10)]
    #[kani::stub(crate::bases::Serializer::close, crate::bases::verif_ser::stub_close)]
    fn c15_canary_ref_column() {
        ref_column(false);
        assert!(false, "CANARY");
    }
}

wharness! {
    #[kani::unwind(24)]
    #[kani::stub(crate::bases::Serializer::close, crate::bases::verif_ser::stub_close)]
    fn c15_index_offset() {
        let first = Vow::new(EntryIdx::from(7u32));
        let mut index = Index::new("ab", IndexFreeData::from([0u8; 4]), PropertyIdx::from(0u8),
            EntryStoreIdx::from(0u32), EntryCount::from(3u32), Word::from(first.bind()));
        let p1: u32 = kani::any();
        let p: u32 = kani::any();
        kani::assume(p != 7 && p != 3 && p != 0);
        first.fulfil(EntryIdx::from(p1));
        first.fulfil(EntryIdx::from(p));
        log_reset();
        let mut ser = Serializer::new(BlockCheck::None);
        match index.serialize_tail(&mut ser) {
            Ok(()) => {
                let (buf, _) = ser.close();
                expect_writes(&[
                    wu(0, 4), wu(3, 4), wu(p as u64, 4), wd(0, 4), wu(0, 1),
                    wu(2, 1), wd(b'a' as u64 | (b'b' as u64) << 8, 2),
                ], &buf);
                std::mem::forget(buf);
            }
            Err(e) => { forget(e); assert!(false, "VERIF: index tail failed"); }
        }
        kani::cover!(p1 != p && p > 0xFFFFFF, "re-assigned wide offset");
        std::mem::forget((index, first));
    }
}
