// C15 — deferred values: the shared position cell, the handle returned by add_entry, and the point
// at which a reference property is read (column sizing, entry bytes, index offset).
// Injected as a child module of `crate::creator::directory_pack::entry_store` (sees EntryStore's
// and BasicEntry's fields).
//
// What is NOT here (DESIGN.md section 5): EntryStore::finalize — the (re)assignment of positions
// after each sort pass is rayon (par_sort_unstable_by / par_iter_mut), which Kani cannot compile;
// the harnesses below decide that whatever position is assigned LAST reaches every holder of the
// handle, the column width and the bytes written.
#![allow(dead_code, unused_imports, unused_variables)]

use super::super::layout;
use super::super::schema;
use super::super::{BasicEntry, EntryTrait, FullEntryTrait, Index, Value};
use super::EntryStore;
use crate::bases::*;
use crate::creator::private::WritableTell;
use crate::verif_common::*;

type PN = &'static str;
type VN = &'static str;

// @h c15_cell | Vow::{new,fulfil,get,bind}; Bound::{get,clone,eq}; Word::from(Bound) / Word::get; SyncType for EntryIdx/u64 | initial value, two successive positions (u32), handles taken before, between and after the assignments, deferred values read between the assignments (as a sort on a reference key does) and after them | every handle and every Word derived from it reports the position assigned last, also when it was already read earlier; handles of different cells are independent | 2 assignments, 2 cells
// @h c15_add_entry | EntryStore::{new,add_entry,len}; BasicEntry::{set_idx,get_idx} (real BasicEntry built by struct literal) | two entries added to an unsorted store; a later re-assignment of the first entry's position (symbolic) | the handle returned by add_entry reports the insertion position, is the entry's own cell (a later set_idx on the stored entry shows through it) and is not shared between entries | 2 entries; Vec capacity hint 2
// @h c15_ref_column | schema::Property::{new_uint,process,finalize}; layout::Properties::serialize_entry UnsignedWord arm; Word::from(Bound<EntryIdx>) | a reference property bound to another entry's position; the position is assigned (twice, symbolic) after the value was built and before the column is processed | the column is sized from, and the entry bytes hold, the position assigned last (never the value the cell had when the reference was created) | 2 referencing entries, u32 positions; primitive writes through the ghost log
// @h c15_sref_column | same for SignedWord (Word<i64> closure over a Bound<EntryIdx>) | position u32 | bytes hold the final position, width fits | 2 entries
// @h c15_index_offset | Index::{new,serialize_tail} with an offset bound to an entry position | position assigned after the index was created | the index tail holds the position assigned last | u32

fn pos(b: &Bound<EntryIdx>) -> u32 {
    b.get().into_u32()
}

vharness! {
    #[kani::unwind(4)]
    fn c15_cell() {
        let init: u32 = kani::any();
        let p1: u32 = kani::any();
        let p2: u32 = kani::any();
        let vow = Vow::new(EntryIdx::from(init));
        let other = Vow::new(EntryIdx::from(init));
        let before = vow.bind();
        let w_before: Word<u64> = before.clone().into();
        assert!(pos(&before) == init && vow.get().into_u32() == init, "VERIF: a fresh cell does not hold its initial value");
        vow.fulfil(EntryIdx::from(p1));
        let between = vow.bind();
        let w_between: Word<EntryIdx> = between.clone().into();
        assert!(pos(&before) == p1 && pos(&between) == p1, "VERIF: a handle does not report the assigned position");
        // an early reader (a sort pass comparing on a reference key reads the value before positions are final)
        assert!(w_before.get() == p1 as u64 && w_between.get().into_u32() == p1, "VERIF: a deferred value does not report the position assigned so far");
        vow.fulfil(EntryIdx::from(p2));
        let after = vow.bind();
        assert!(pos(&before) == p2 && pos(&between) == p2 && pos(&after) == p2, "VERIF: a handle taken earlier does not report the position assigned last");
        assert!(w_before.get() == p2 as u64 && w_between.get().into_u32() == p2, "VERIF: a deferred value built from a handle does not report the position assigned last");
        assert!(before == after, "VERIF: handles of one cell compare different");
        assert!(pos(&other.bind()) == init, "VERIF: assigning one cell changed another");
        kani::cover!(p1 != p2 && p2 != init && p2 > 0xFFFF, "re-assignment to a different wide position");
        std::mem::forget((vow, other, before, between, after, w_before, w_between));
    }
}

fn basic(idx: Vow<EntryIdx>) -> BasicEntry<PN, VN> {
    BasicEntry {
        variant_name: None,
        names: Vec::new().into_boxed_slice(),
        values: Vec::new().into_boxed_slice(),
        idx,
    }
}

fn empty_schema() -> schema::Schema<PN, VN> {
    schema::Schema {
        common: schema::CommonProperties::new(Vec::new()),
        variants: Vec::new(),
        sort_keys: None,
    }
}

vharness! {
    #[kani::unwind(4)]
    fn c15_add_entry() {
        let i0: u32 = kani::any();
        let i1: u32 = kani::any();
        let later: u32 = kani::any();
        let mut store: EntryStore<PN, VN, BasicEntry<PN, VN>> = EntryStore::new(empty_schema(), Some(2));
        let h0 = store.add_entry(basic(Vow::new(EntryIdx::from(i0))));
        assert!(store.len() == 1 && pos(&h0) == 0, "VERIF: the handle of the first entry does not report position 0");
        let h1 = store.add_entry(basic(Vow::new(EntryIdx::from(i1))));
        assert!(store.len() == 2 && pos(&h1) == 1 && pos(&h0) == 0, "VERIF: the handle returned by add_entry does not report the insertion position");
        // what finalize does after a sort pass: a new position for the stored entry
        store.entries[0].set_idx(EntryIdx::from(later));
        assert!(pos(&h0) == later, "VERIF: the handle returned by add_entry is not the stored entry's own position cell");
        assert!(pos(&h1) == 1, "VERIF: two entries share one position cell");
        assert!(pos(&store.entries[0].get_idx()) == later && pos(&store.entries[1].get_idx()) == 1);
        kani::cover!(later > 1, "moved away");
        std::mem::forget((store, h0, h1));
    }
}

struct One {
    v: Value,
}
impl EntryTrait<PN, VN> for One {
    fn variant_name(&self) -> Option<MayRef<VN>> {
        None
    }
    fn value<'a>(&'a self, _name: &PN) -> MayRef<'a, Value> {
        MayRef::Borrowed(&self.v)
    }
    fn value_count(&self) -> PropertyCount {
        1u8.into()
    }
    fn set_idx(&mut self, _idx: EntryIdx) {}
    fn get_idx(&self) -> Bound<EntryIdx> {
        Vow::new(EntryIdx::from(0)).bind()
    }
}

fn fits_u(v: u64, w: usize) -> bool {
    w >= 8 || v < (1u64 << (8 * w))
}

/// one property, one entry -> the ghost log (symbolically) or the bytes (natively)
fn ser_one(prop: &layout::Property<PN>, e: &One) -> Option<Vec<u8>> {
    log_reset();
    let mut ser = Serializer::new(BlockCheck::None);
    let r = layout::Properties::<PN>::serialize_entry::<VN>(std::slice::from_ref(prop).iter(), None, e, &mut ser);
    match r {
        Ok(n) => {
            let (buf, _) = ser.close();
            assert!(n == prop.size() as usize, "VERIF: bytes written for a property differ from its declared entry size");
            Some(buf)
        }
        Err(e) => {
            forget(e);
            None
        }
    }
}

fn ref_column(signed: bool) {
    // two referenced entries; their handles are taken, and the reference values built, while
    // the cells still hold the insertion positions
    let a = Vow::new(EntryIdx::from(0u32));
    let b = Vow::new(EntryIdx::from(1u32));
    let mk = |h: Bound<EntryIdx>| -> Value {
        if signed {
            let f: Box<dyn Fn() -> i64 + Sync + Send> = Box::new(move || h.get().into_u32() as i64);
            Value::SignedWord(Box::new(Word::from(f)))
        } else {
            Value::UnsignedWord(Box::new(Word::from(h)))
        }
    };
    let ea = One { v: mk(a.bind()) };
    let eb = One { v: mk(b.bind()) };
    // sort passes: positions assigned, then re-assigned
    let pa1: u32 = kani::any();
    let pa: u32 = kani::any();
    let pb: u32 = kani::any();
    a.fulfil(EntryIdx::from(pa1));
    a.fulfil(EntryIdx::from(pa));
    b.fulfil(EntryIdx::from(pb));
    // columns are sized after positions are final
    let mut p = if signed { schema::Property::<PN>::new_sint("p") } else { schema::Property::<PN>::new_uint("p") };
    p.process::<VN>(&ea);
    p.process::<VN>(&eb);
    let lp = p.finalize();
    let (size, constant) = match &lp {
        layout::Property::UnsignedInt { size, default, .. } => {
            assert!(!signed, "VERIF: wrong layout kind");
            if let Some(d) = default {
                assert!(*d == pa as u64, "VERIF: default of a constant reference column is not the final position");
            }
            (*size as usize, default.is_some())
        }
        layout::Property::SignedInt { size, default, .. } => {
            assert!(signed, "VERIF: wrong layout kind");
            if let Some(d) = default {
                assert!(*d == pa as i64, "VERIF: default of a constant reference column is not the final position");
            }
            (*size as usize, default.is_some())
        }
        _ => {
            assert!(false, "VERIF: wrong layout kind");
            return;
        }
    };
    assert!(constant == (pa == pb), "VERIF: a reference column is constant iff the final positions are equal");
    let second: bool = kani::any();
    let (e, want) = if second { (&eb, pb) } else { (&ea, pa) };
    match ser_one(&lp, e) {
        Some(buf) => {
            if constant {
                expect_writes(&[], &buf);
            } else {
                if signed {
                    assert!(size >= 8 || (want as i64) < (1i64 << (8 * size - 1)), "VERIF: final position does not fit the width of the reference column");
                    expect_writes(&[wi(want as i64, size)], &buf);
                } else {
                    assert!(fits_u(want as u64, size), "VERIF: final position does not fit the width of the reference column");
                    expect_writes(&[wu(want as u64, size)], &buf);
                }
            }
            std::mem::forget(buf);
        }
        None => assert!(false, "VERIF: serialize_entry failed on a reference property"),
    }
    kani::cover!(pa1 != pa && pa != pb && want > 0xFFFF, "re-assigned, varying, wide");
    kani::cover!(pa == pb, "constant column");
    std::mem::forget((a, b, ea, eb, lp));
}

wharness! {
    #[kani::unwind(10)]
    #[kani::stub(crate::bases::Serializer::close, crate::bases::verif_ser::stub_close)]
    fn c15_ref_column() { ref_column(false) }
}

wharness! {
    #[kani::unwind(10)]
    #[kani::stub(crate::bases::Serializer::close, crate::bases::verif_ser::stub_close)]
    fn c15_sref_column() { ref_column(true) }
}

wharness! {
    #[kani::unwind(10)]
    #[kani::stub(crate::bases::Serializer::close, crate::bases::verif_ser::stub_close)]
    fn c15_canary_ref_column() {
        ref_column(false);
        assert!(false, "CANARY");
    }
}

wharness! {
    #[kani::unwind(24)]
    #[kani::stub(crate::bases::Serializer::close, crate::bases::verif_ser::stub_close)]
    fn c15_index_offset() {
        let first = Vow::new(EntryIdx::from(7u32));
        let mut index = Index::new("ab", IndexFreeData::from([0u8; 4]), PropertyIdx::from(0u8),
            EntryStoreIdx::from(0u32), EntryCount::from(3u32), Word::from(first.bind()));
        let p1: u32 = kani::any();
        let p: u32 = kani::any();
        kani::assume(p != 7 && p != 3 && p != 0);
        first.fulfil(EntryIdx::from(p1));
        first.fulfil(EntryIdx::from(p));
        log_reset();
        let mut ser = Serializer::new(BlockCheck::None);
        match index.serialize_tail(&mut ser) {
            Ok(()) => {
                let (buf, _) = ser.close();
                expect_writes(&[
                    wu(0, 4), wu(3, 4), wu(p as u64, 4), wd(0, 4), wu(0, 1),
                    wu(2, 1), wd(b'a' as u64 | (b'b' as u64) << 8, 2),
                ], &buf);
                std::mem::forget(buf);
            }
            Err(e) => { forget(e); assert!(false, "VERIF: index tail failed"); }
        }
        kani::cover!(p1 != p && p > 0xFFFFFF, "re-assigned wide offset");
        std::mem::forget((index, first));
    }
}

// ---- the real EntryStore::finalize with sequential stand-ins for the two rayon calls ------------
// @h c15_finalize_keys | EntryStore::{add_entry,finalize}: the real control flow (assignment, sort, re-assignment, sortedness loop with its re-sort and re-assignment, Schema::process of every entry after the last pass) | two (thorough: three) entries (real cells and Values) with symbolic distinct sort keys, each holding a reference to entry 0 | every handle returned by add_entry reports the rank of its entry's key; when the columns are sized (Schema::process), every entry's own position and the reference it holds already are the final ones | 2 entries quick, 3 thorough (c15t_finalize_keys3); S-idx (set_entry_idx -> sequential loop), S-sort (rayon par_quicksort -> sequential insertion sort with the same comparator), M-proc (Schema::process records what it is shown; column sizing itself: c15_ref_column), Schema::finalize -> empty layout (HashMap and every property kind: no verdict in 15 min)
// @h c15_finalize_chain | same | three entries whose sort key is the position of their parent plus one (a chain added children first: two sort passes are needed), each referencing its parent | the sort loop ends with every cell holding the position its entry is written at, and the columns are sized from those positions | 3 entries, fixed shape

use super::set_entry_idx;
use super::super::{PropertyName, VariantName};

pub(crate) fn seq_set_entry_idx<PN2, VN2, Entry>(entries: &mut [Entry])
where
    PN2: PropertyName,
    VN2: VariantName,
    Entry: FullEntryTrait<PN2, VN2> + Send,
{
    let mut i = 0;
    while i < entries.len() {
        entries[i].set_idx(EntryIdx::from(i as u32));
        i += 1;
    }
}

pub(crate) fn seq_quicksort<T, F>(v: &mut [T], is_less: F)
where
    T: Send,
    F: Fn(&T, &T) -> bool + Sync,
{
    // insertion sort with the caller's comparator
    let mut i = 1;
    while i < v.len() {
        let mut j = i;
        while j > 0 && is_less(&v[j], &v[j - 1]) {
            v.swap(j, j - 1);
            j -= 1;
        }
        i += 1;
    }
}

pub(crate) fn fixed_random_state() -> std::hash::RandomState {
    unsafe { std::mem::transmute::<[u64; 2], std::hash::RandomState>([1, 2]) }
}

/// (own module: Kani matches a stub's generic parameters by name, and PN / VN are type aliases
/// in the enclosing module)
pub(crate) mod fstubs {
    use super::super::super::{layout, schema, EntryTrait, PropertyName, Value, VariantName};
    use crate::bases::*;

    /// M-proc: what Schema::process is shown, in call order: (the entry's own position, the value of
    /// its reference property), both read at that moment
    pub(crate) static mut PROC: [(u32, u64); 4] = [(0, 0); 4];
    pub(crate) static mut PROC_N: usize = 0;

    pub(crate) fn mon_schema_process<PN: PropertyName, VN: VariantName>(
        s: &mut schema::Schema<PN, VN>,
        entry: &dyn EntryTrait<PN, VN>,
    ) {
        let name = s.sort_keys.as_ref().unwrap()[0];
        let r = match entry.value(&name).as_ref() {
            Value::UnsignedWord(w) => w.get(),
            _ => u64::MAX,
        };
        unsafe {
            assert!(PROC_N < 4, "VERIF: Schema::process called more often than there are entries");
            PROC[PROC_N] = (entry.get_idx().get().into_u32(), r);
            PROC_N += 1;
        }
    }

    pub(crate) fn stub_schema_finalize<PN: PropertyName, VN: VariantName>(
        s: schema::Schema<PN, VN>,
    ) -> layout::Entry<PN, VN> {
        std::mem::forget(s);
        layout::Entry {
            common: Vec::new().into_iter().collect(),
            variants: Vec::new(),
            variants_map: std::collections::HashMap::new(),
            entry_size: 0,
        }
    }
}
use fstubs::{PROC, PROC_N};

/// An entry type of the harness: real Vow cell, real Value; the comparison reads the key
/// directly (BasicEntry::compare goes through Value::partial_cmp, whose array arms drag the value
/// stores into every comparison: 15 min without a verdict).
struct E3 {
    k: Key,
    r: Value,
    idx: Vow<EntryIdx>,
}
/// the sort key: a constant, or the position of the parent plus one (read when compared)
enum Key {
    Const(u64),
    ParentPlusOne(Bound<EntryIdx>),
}
impl Key {
    fn get(&self) -> u64 {
        match self {
            Key::Const(c) => *c,
            Key::ParentPlusOne(b) => b.get().into_u32() as u64 + 1,
        }
    }
}
impl EntryTrait<PN, VN> for E3 {
    fn variant_name(&self) -> Option<MayRef<VN>> {
        None
    }
    fn value<'a>(&'a self, _name: &PN) -> MayRef<'a, Value> {
        MayRef::Borrowed(&self.r)
    }
    fn value_count(&self) -> PropertyCount {
        1u8.into()
    }
    fn set_idx(&mut self, idx: EntryIdx) {
        self.idx.fulfil(idx)
    }
    fn get_idx(&self) -> Bound<EntryIdx> {
        self.idx.bind()
    }
}
impl FullEntryTrait<PN, VN> for E3 {
    fn compare<'i, I>(&self, _sort_keys: &'i I, other: &Self) -> std::cmp::Ordering
    where
        I: IntoIterator<Item = &'i PN> + Copy,
    {
        self.k.get().cmp(&other.k.get())
    }
}

fn uword(h: Bound<EntryIdx>) -> Value {
    Value::UnsignedWord(Box::new(Word::from(h)))
}

fn schema1() -> schema::Schema<PN, VN> {
    schema::Schema {
        common: schema::CommonProperties::new(vec![schema::Property::new_uint("r")]),
        variants: Vec::new(),
        sort_keys: Some(vec!["k"]),
    }
}

/// Runs the real finalize. Symbolically Schema::process is M-proc; natively (replay, no stubs)
/// the real process / finalize / write_data run and the bytes written are the observation:
/// returns, per written entry in order, the reference value seen / written.
fn run_finalize(store: EntryStore<PN, VN, E3>, n: usize, constant_native: bool) -> [u64; 3] {
    use super::EntryStoreTrait;
    unsafe { PROC_N = 0 };
    let mut fin = Box::new(store).finalize();
    let mut out = [0u64; 3];
    if is_symbolic() {
        assert!(unsafe { PROC_N } == n, "VERIF: Schema::process must see every entry once");
        let mut e = 0;
        while e < n {
            let (own, r) = unsafe { PROC[e] };
            assert!(own == e as u32, "VERIF: when the columns are sized an entry's position is not its final one");
            out[e] = r;
            e += 1;
        }
    } else {
        let mut cur = std::io::Cursor::new(Vec::<u8>::new());
        match fin.write_data(&mut cur) {
            Ok(()) => {}
            Err(e) => { forget(e); assert!(false, "VERIF: entry store write_data failed"); }
        }
        let data = cur.into_inner();
        if constant_native {
            // constant column: nothing but the CRC; the default is checked by the library itself
            assert!(data.len() == 4, "VERIF: entry store data length");
            out = [u64::MAX; 3];
        } else {
            assert!(data.len() == n + 4, "VERIF: entry store data length");
            let mut e = 0;
            while e < n {
                out[e] = data[e] as u64;
                e += 1;
            }
        }
    }
    std::mem::forget(fin);
    out
}

fn finalize_keys(n: usize, canary: bool) {
    let k: [u8; 3] = [kani::any(), kani::any(), if n == 3 { kani::any() } else { 255 }];
    kani::assume(k[0] != k[1] && k[1] != k[2] && k[0] != k[2]);
    let v0 = Vow::new(EntryIdx::from(0u32));
    let b0 = v0.bind();
    let mut store: EntryStore<PN, VN, E3> = EntryStore::new(schema1(), Some(3));
    let h0 = store.add_entry(E3 { k: Key::Const(k[0] as u64), r: uword(b0.clone()), idx: v0 });
    let h1 = store.add_entry(E3 { k: Key::Const(k[1] as u64), r: uword(b0.clone()), idx: Vow::new(EntryIdx::from(0u32)) });
    let h2 = if n == 3 {
        store.add_entry(E3 { k: Key::Const(k[2] as u64), r: uword(b0.clone()), idx: Vow::new(EntryIdx::from(0u32)) })
    } else {
        Vow::new(EntryIdx::from(2u32)).bind()
    };
    let seen = run_finalize(store, n, true);
    let rank = |j: usize| -> u32 {
        let mut r = 0;
        let mut l = 0;
        while l < 3 {
            if k[l] < k[j] {
                r += 1;
            }
            l += 1;
        }
        r
    };
    assert!(pos(&h0) == rank(0) && pos(&h1) == rank(1) && pos(&h2) == rank(2), "VERIF: a handle returned by add_entry does not report the position its entry is written at");
    if is_symbolic() {
        // every entry references entry 0: what the column sizing saw is its final position
        let mut e = 0;
        while e < n {
            assert!(seen[e] == rank(0) as u64, "VERIF: the columns were sized before the referenced entry had its final position");
            e += 1;
        }
    }
    kani::cover!(rank(0) == 1 && rank(1) == 0, "entry 0 moved behind entry 1");
    if canary {
        assert!(false, "CANARY");
    }
    std::mem::forget((b0, h0, h1, h2));
}

fn finalize_chain() {
    // e0's parent is e1, e1's parent is e2, e2 is the root; key = position of the parent + 1
    let v = [Vow::new(EntryIdx::from(0u32)), Vow::new(EntryIdx::from(0u32)), Vow::new(EntryIdx::from(0u32))];
    let b = [v[0].bind(), v[1].bind(), v[2].bind()];
    let key = |h: Bound<EntryIdx>| -> Key { Key::ParentPlusOne(h) };
    let [v0, v1, v2] = v;
    let mut store: EntryStore<PN, VN, E3> = EntryStore::new(schema1(), Some(3));
    let h0 = store.add_entry(E3 { k: key(b[1].clone()), r: uword(b[1].clone()), idx: v0 });
    let h1 = store.add_entry(E3 { k: key(b[2].clone()), r: uword(b[2].clone()), idx: v1 });
    // (no nondeterministic input: a counterexample is replayed natively by running the harness as
    // it stands, see the runner)
    let h2 = store.add_entry(E3 { k: Key::Const(0), r: uword(b[2].clone()), idx: v2 });
    let seen = run_finalize(store, 3, false);
    // the only order consistent with the keys: root, its child, the grandchild
    assert!(pos(&h2) == 0 && pos(&h1) == 1 && pos(&h0) == 2, "VERIF: after the sort loop a handle does not report the position its entry is written at");
    // in that order: the root references itself (0), e1 the root (0), e0 its parent e1 (1)
    assert!(seen[0] == 0 && seen[1] == 0 && seen[2] == 1, "VERIF: a reference property does not hold the final position of the referenced entry");
    std::mem::forget((b, h0, h1, h2));
}

macro_rules! fharness {
    (fn $name:ident() $body:block) => {
        #[kani::proof]
        #[kani::unwind(6)]
        #[kani::stub(std::fmt::format, crate::verif_common::stub_format)]
        #[kani::stub(std::backtrace::Backtrace::capture, crate::verif_common::stub_bt_capture)]
        #[kani::stub(crate::verif_common::is_symbolic, crate::verif_common::is_symbolic_yes)]
        #[kani::stub(crate::creator::directory_pack::entry_store::set_entry_idx, seq_set_entry_idx)]
        #[kani::stub(rayon::slice::sort::par_quicksort, seq_quicksort)]
        #[kani::stub(std::hash::RandomState::new, fixed_random_state)]
        #[kani::stub(crate::creator::directory_pack::schema::Schema::process, fstubs::mon_schema_process)]
        #[kani::stub(crate::creator::directory_pack::schema::Schema::finalize, fstubs::stub_schema_finalize)]
        fn $name() $body
    };
}

fharness! {
    fn c15_finalize_keys() { finalize_keys(2, false) }
}
fharness! {
    fn c15_canary_finalize_keys() { finalize_keys(2, true) }
}
fharness! {
    fn c15t_finalize_keys3() { finalize_keys(3, false) }
}
fharness! {
    fn c15_finalize_chain() { finalize_chain() }
}
