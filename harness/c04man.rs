// C04 — ManifestPack::check hashes exactly [0, check_info_pos) (masked). Child of reader::manifest_pack.
#![allow(dead_code, unused_imports)]
use super::ManifestPack;
use crate::bases::*;
use crate::common::{ManifestPackHeader, PackHeader, PackInfo, PackKind};
use crate::verif_common::*;
use std::sync::OnceLock;

// @h c04_range_manifest | <ManifestPack as Pack>::check; ManifestCheckStream::{new_from_offset_iter,read}; PackOffsetsIter; CheckInfo::check | as c04_range_directory, for a manifest without pack table (the masking itself: c04_mask_step / c04_mask_setup) | exactly [0, check_info_pos) is hashed through the masking stream; pristine verifies, altered does not | body <= 20 bytes, no packs

pub(crate) fn mk(reader: Reader, cip: u64) -> ManifestPack {
    let pack_header = PackHeader {
        magic: PackKind::Manifest, app_vendor_id: VendorId::from([0u8; 4]), major_version: 0, minor_version: 2,
        uuid: uuid::Uuid::from_bytes([1u8; 16]), flags: 0, file_size: Size::new(cip + 37 + 64), check_info_pos: Offset::new(cip) };
    let header = ManifestPackHeader::new(PackFreeData::from([0u8; 24]), PackCount::from(0u16), SizedOffset::default());
    let directory_pack_info = PackInfo {
        uuid: uuid::Uuid::from_bytes([2u8; 16]), pack_size: Size::new(0), check_info_pos: SizedOffset::default(), pack_id: PackId::from(0u16),
        pack_kind: PackKind::Directory, pack_group: 0, free_data_id: ValueIdx::from(0u64), pack_location: SmallString::new() };
    ManifestPack { pack_header, header, reader, directory_pack_info, pack_infos: Vec::new(), check_info: OnceLock::new(), value_store: None, max_id: 0 }
}

hharness! {
    #[kani::unwind(40)]
    #[kani::stub(crate::bases::assert_slice_crc, crate::verif_common::crc_oracle)]
    fn c04_range_manifest() {
        if kani::any() { check_range(8, mk) } else { check_range(20, mk) }
    }
}

/// A manifest listing the given content packs (for the C11 harness in reader::jubako).
pub(crate) fn mk_with_packs(reader: Reader, infos: Vec<PackInfo>, max_id: u16) -> ManifestPack {
    let mut m = mk(reader, 8);
    m.pack_infos = infos;
    m.max_id = max_id;
    m
}
