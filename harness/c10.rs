// C10 / C14 — the container pack writer: declared size, header/tail mirror, locator table.
// Injected as a child module of `crate::creator` (can implement the sealed PackRecipient).
#![allow(dead_code, unused_imports, unused_variables)]

use super::private::Sealed;
use super::{ContainerPackCreator, InputReader, MaybeFileReader, PackRecipient};
use crate::bases::*;
use crate::verif_common::*;
use crate::verif_common::hharness;
use std::io::{Cursor, Read, Seek, SeekFrom, Write};
use uuid::Uuid;

// @h c10_container_writer | ContainerPackCreator::{from_file,add_pack,into_file,finalize}; InContainerFile::{write,seek,close}; Skip::{new,seek,into_inner}; OutStream::{ser_write,write_serializer,tell}; PackHeader/ContainerPackHeader/PackLocator/CheckInfo serialize; std::io::copy | two packs of 3 and 2 symbolic bytes, the first added with add_pack, the second written through an InContainerFile; free data symbolic | the file size declared in the header == the bytes written (header block, container header block, packs, locator table, check block, 64 byte tail); the tail is the byte-reversed header block; check_info_pos and the locator table position are where those blocks are; each locator (uuid, size, offset) delimits exactly the bytes of its pack | 2 packs, 5 content bytes; Uuid::new_v4 -> fixed value; Serializer::close without CRC
// @h c10_chain | ChainedLocator::{new,locate} | three locators, each answering found / not found / error (symbolic) | the first locator that finds the pack wins, in order; None only if all answered None; an error stops the chain and propagates | 3 locators
// @h c10_skip | Skip::{new,seek,into_inner} over a Cursor | skip position, seek target | positions are relative to the skip position; Start(s) lands at skip + s; the value returned is the absolute position minus the skip | 64 byte stream

#[derive(Debug)]
pub(crate) struct MemFile(pub Cursor<Vec<u8>>);
impl Read for MemFile {
    fn read(&mut self, buf: &mut [u8]) -> std::io::Result<usize> { self.0.read(buf) }
}
impl Write for MemFile {
    fn write(&mut self, buf: &[u8]) -> std::io::Result<usize> { self.0.write(buf) }
    fn flush(&mut self) -> std::io::Result<()> { Ok(()) }
}
impl Seek for MemFile {
    fn seek(&mut self, pos: SeekFrom) -> std::io::Result<u64> { self.0.seek(pos) }
}
impl OutStream for MemFile {
    fn copy(&mut self, reader: Box<dyn InputReader>) -> IoResult<(u64, MaybeFileReader)> {
        self.0.copy(reader)
    }
}
impl Sealed for MemFile {}
impl PackRecipient for MemFile {
    fn close_file(self: Box<Self>) -> crate::creator::Result<camino::Utf8PathBuf> {
        Ok(camino::Utf8PathBuf::new())
    }
}

fn fixed_uuid() -> Uuid {
    Uuid::from_bytes([0xAB; 16])
}

fn container_writer(canary: bool) {
    let fd: [u8; 24] = {
        let mut a = [0u8; 24];
        a[0] = kani::any();
        a[23] = kani::any();
        a
    };
    let p1: [u8; 3] = [kani::any(), kani::any(), kani::any()];
    let p2: [u8; 2] = [kani::any(), kani::any()];
    let u1 = Uuid::from_bytes([1u8; 16]);
    let u2 = Uuid::from_bytes([2u8; 16]);
    // the two header blocks exist as a hole, as in a file where one seeks past the end and writes
    let file = Box::new(MemFile(Cursor::new(vec![0u8; 128])));
    let mut c = match ContainerPackCreator::from_file(file, PackFreeData::from(fd)) {
        Ok(c) => c,
        Err(e) => { forget(e); assert!(false, "VERIF: from_file failed"); return; }
    };
    let mut r1: &[u8] = &p1;
    match c.add_pack(u1, &mut r1) { Ok(()) => {}, Err(e) => { forget(e); assert!(false, "VERIF: add_pack failed"); } }
    // second pack written in place through an InContainerFile
    let mut inner = match c.into_file() { Ok(f) => f, Err(e) => { forget(e); assert!(false); return; } };
    match inner.write_all(&p2) { Ok(()) => {}, Err(e) => { forget(e); assert!(false); } }
    match inner.seek(SeekFrom::Start(0)) { Ok(p) => assert!(p == 0, "VERIF: positions inside a contained pack are relative to its start"), Err(e) => { forget(e); assert!(false); } }
    let c = match inner.close(u2) { Ok(c) => c, Err(e) => { forget(e); assert!(false, "VERIF: close failed"); return; } };
    let file = match c.finalize() { Ok(f) => f, Err(e) => { forget(e); assert!(false, "VERIF: finalize failed"); return; } };
    let bytes = file.0.into_inner();
    // expected layout: [0,64) header block, [64,128) container header block, [128,131) pack 1,
    // [131,133) pack 2, [133,133+2*36) locators, then the 5 byte check block, then the 64 byte tail
    let loc_pos = 133usize;
    let cip = loc_pos + 2 * 36;
    let total = cip + 5 + 64;
    assert!(bytes.len() == total, "VERIF: container file length");
    assert!(bytes[0] == b'j' && bytes[1] == b'b' && bytes[2] == b'k' && bytes[3] == b'C', "VERIF: container magic");
    assert!(bytes[8] == 0 && bytes[9] == 2, "VERIF: format version");
    let declared = ref_le_uint(&bytes[32..], 8);
    assert!(declared == bytes.len() as u64, "VERIF: the pack size declared in the header differs from the bytes written");
    assert!(ref_le_uint(&bytes[40..], 8) == cip as u64, "VERIF: check info position");
    // container header
    assert!(ref_le_uint(&bytes[64..], 8) == loc_pos as u64, "VERIF: locator table position");
    assert!(ref_le_uint(&bytes[72..], 2) == 2, "VERIF: pack count");
    assert!(bytes[64 + 36] == fd[0] && bytes[64 + 59] == fd[23], "VERIF: container free data");
    // packs
    assert!(bytes[128] == p1[0] && bytes[130] == p1[2] && bytes[131] == p2[0] && bytes[132] == p2[1], "VERIF: pack bytes");
    // locators: uuid(16) size(8) offset(8) crc(4)
    assert!(bytes[loc_pos] == 1 && bytes[loc_pos + 15] == 1, "VERIF: first locator uuid");
    assert!(ref_le_uint(&bytes[loc_pos + 16..], 8) == 3 && ref_le_uint(&bytes[loc_pos + 24..], 8) == 128, "VERIF: first locator does not delimit its pack");
    assert!(bytes[loc_pos + 36] == 2, "VERIF: second locator uuid");
    assert!(ref_le_uint(&bytes[loc_pos + 36 + 16..], 8) == 2 && ref_le_uint(&bytes[loc_pos + 36 + 24..], 8) == 131, "VERIF: second locator does not delimit its pack");
    // check block: kind none
    assert!(bytes[cip] == 0, "VERIF: container check kind");
    // tail == reversed header block
    let mut i = 0;
    while i < 64 {
        assert!(bytes[total - 1 - i] == bytes[i], "VERIF: the tail is not the byte-reversed header block");
        i += 1;
    }
    if canary {
        assert!(false, "CANARY");
    }
    std::mem::forget(bytes);
}

macro_rules! cw_harness {
    ($name:ident, $canary:expr) => {
        vharness! {
            #[kani::unwind(70)]
            #[kani::stub(uuid::Uuid::new_v4, fixed_uuid)]
            #[kani::stub(crate::bases::Serializer::close, crate::bases::verif_ser::stub_close)]
            fn $name() { container_writer($canary) }
        }
    };
}
cw_harness!(c10_container_writer, false);
cw_harness!(c10_canary_container_writer, true);

// ---- lookup chain ---------------------------------------------------------------------------------
use crate::reader::{ChainedLocator, PackLocatorTrait};
use std::sync::Arc;

struct MockLoc {
    answer: u8, // 0 = not found, 1 = found, 2 = error
    tag: u64,
}
impl PackLocatorTrait for MockLoc {
    fn locate(&self, _uuid: Uuid, _helper: &str) -> Result<Option<Reader>> {
        match self.answer {
            0 => Ok(None),
            1 => Ok(Some(Reader::new(vec![0u8; 4], Size::new(self.tag)))),
            _ => Err(format_error!("locator error")),
        }
    }
}

vharness! {
    #[kani::unwind(6)]
    fn c10_chain() {
        let a: [u8; 3] = [kani::any(), kani::any(), kani::any()];
        kani::assume(a[0] < 3 && a[1] < 3 && a[2] < 3);
        let locs: Vec<Arc<dyn PackLocatorTrait>> = vec![
            Arc::new(MockLoc { answer: a[0], tag: 1 }), Arc::new(MockLoc { answer: a[1], tag: 2 }), Arc::new(MockLoc { answer: a[2], tag: 3 })];
        let chain = ChainedLocator::new(locs);
        // expected: scan in order, stop at the first found or error
        let mut expect: u8 = 0; // 0 none, 1..3 found at, 9 error
        let mut i = 0;
        while i < 3 {
            if a[i] == 1 { expect = i as u8 + 1; break; }
            if a[i] == 2 { expect = 9; break; }
            i += 1;
        }
        match chain.locate(Uuid::from_bytes([0u8; 16]), "x") {
            Ok(Some(r)) => { assert!(expect >= 1 && expect <= 3 && r.size().into_u64() == expect as u64, "VERIF: the lookup chain did not return the first locator that finds the pack"); std::mem::forget(r); }
            Ok(None) => assert!(expect == 0, "VERIF: the lookup chain gave up although a locator finds the pack"),
            Err(e) => { forget(e); assert!(expect == 9, "VERIF: the lookup chain failed although a locator before the failing one finds the pack"); }
        }
        kani::cover!(expect == 2, "second locator");
        kani::cover!(expect == 0, "nobody");
        std::mem::forget(chain);
    }
}

vharness! {
    #[kani::unwind(6)]
    fn c10_skip() {
        let skip: u64 = kani::any();
        kani::assume(skip <= 32);
        let mut cur = Cursor::new(vec![0u8; 64]);
        cur.set_position(skip);
        let mut s = match Skip::new(cur) { Ok(s) => s, Err(e) => { forget(e); assert!(false); return; } };
        let t: u64 = kani::any();
        kani::assume(t <= 1000);
        match s.seek(SeekFrom::Start(t)) {
            Ok(p) => assert!(p == t, "VERIF: Skip::seek(Start) must answer the relative position"),
            Err(e) => { forget(e); assert!(false, "VERIF: seek inside a skipped stream failed"); }
        }
        let inner = s.into_inner();
        assert!(inner.position() == skip + t, "VERIF: Skip::seek(Start(s)) must land at skip + s");
        std::mem::forget(inner);
        kani::cover!(skip == 32 && t == 7, "shifted");
    }
}

