// C01 (writer side) — cluster split rule, content info packing, cluster tail width and codec.
// Injected as a child module of `crate::creator::content_pack::clusterwriter`
// (sees the private `serialize_cluster_tail`).
#![allow(dead_code, unused_imports, unused_variables)]

use super::super::cluster::ClusterCreator;
use super::serialize_cluster_tail;
use crate::bases::*;
use crate::common::{ClusterHeader, CompressionType, ContentInfo};
use crate::creator::{Compression, InputReader, MaybeFileReader};
use crate::verif_common::*;
use std::borrow::Cow;
use std::io::{Read, Seek, SeekFrom};

// @h c01_content_info | ContentInfo::{serialize,parse}; Serializer::{write_u32,close}; SliceParser::read_u32 | cluster index (u32), blob index (u16), a second pair | round trip iff cluster < 2^20 and blob < 2^12; distinct in-range pairs give distinct words | none (32 bit word)
// @h c01_cluster_step | ClusterCreator::{new,is_full,add_content,data_size,is_empty}; ContentInfo codec | arbitrary valid pre-state (blob count in {0,1,2,4094,4095}, last offset, compressed flag, cluster index), new content size | one inductive step: not full => add_content succeeds, returns (cluster index, old blob count) which survives the 20/12 bit packing, offsets stay non-decreasing, data_size grows by the size; a compressed non-empty cluster that would exceed 4 MiB is full; a fresh cluster is never full | one step from any valid state; blob counts at the boundaries
// @h c01_tail_width | serialize_cluster_tail; needed_bytes; ClusterHeader::serialize; monitor on Serializer::write_usized | n offsets (n concrete per instantiation), all values and the stored (compressed) size symbolic, compression kind | no field written by the tail is truncated by the offset width the writer chose | n = 1..3 blobs (quick), ..6 (thorough); 64 bit values
// @h c01_tail_writer | serialize_cluster_tail; ClusterHeader::serialize; Serializer::{write_u8,write_u16,write_usized,close} | per width W and blob count n: all offsets, stored size, compression kind (case split None / Zstd) | the bytes written == reference encoding of the pinned cluster tail layout (written in the harness, shares no code with the library) | W in {1,2,3,4,8} x n in {1,2,3} quick, W 5..7 and n 6 thorough; needed_bytes replaced by the constant W under the assumption that max(data size, stored size) is in W's range (needed_bytes itself: c14_needed_bytes)

/// An input of symbolic size (the bytes are irrelevant to the cluster bookkeeping).
struct FakeInput {
    size: u64,
}
impl Read for FakeInput {
    fn read(&mut self, _buf: &mut [u8]) -> std::io::Result<usize> {
        Ok(0)
    }
}
impl Seek for FakeInput {
    fn seek(&mut self, _pos: SeekFrom) -> std::io::Result<u64> {
        Ok(0)
    }
}
impl InputReader for FakeInput {
    fn size(&self) -> Size {
        Size::new(self.size)
    }
    fn get_file_source(self: Box<Self>) -> MaybeFileReader {
        MaybeFileReader::No(self)
    }
}

fn ser_content_info(ci: &ContentInfo) -> [u8; 4] {
    let mut ser = Serializer::new(BlockCheck::None);
    match ci.serialize(&mut ser) {
        Ok(n) => assert!(n == 4, "VERIF: content info is 4 bytes"),
        Err(e) => {
            forget(e);
            assert!(false, "VERIF: content info serialize failed");
        }
    }
    let (buf, _) = ser.close();
    assert!(buf.len() == 4, "VERIF: content info is 4 bytes");
    [buf[0], buf[1], buf[2], buf[3]]
}

fn parse_content_info(b: &[u8; 4]) -> (u32, u16) {
    let mut parser = SliceParser::new(Cow::Borrowed(&b[..]), Offset::zero());
    match ContentInfo::parse(&mut parser) {
        Ok(ci) => (ci.cluster_index.into_u32(), ci.blob_index.into_u16()),
        Err(e) => {
            forget(e);
            assert!(false, "VERIF: content info parse failed");
            (0, 0)
        }
    }
}

vharness! {
    #[kani::unwind(6)]
    fn c01_content_info() {
        let c1: u32 = kani::any();
        let b1: u16 = kani::any();
        kani::assume(c1 < (1 << 20) && b1 < (1 << 12));
        let w1 = ser_content_info(&ContentInfo::new(c1.into(), b1.into()));
        let (pc, pb) = parse_content_info(&w1);
        assert!(pc == c1 && pb == b1, "VERIF: content info does not round trip");
        // independent reference of the packing: little endian (cluster << 12 | blob)
        let word = u32::from_le_bytes(w1);
        assert!(word == (c1 << 12 | b1 as u32), "VERIF: content info word layout");
        let c2: u32 = kani::any();
        let b2: u16 = kani::any();
        kani::assume(c2 < (1 << 20) && b2 < (1 << 12));
        let w2 = ser_content_info(&ContentInfo::new(c2.into(), b2.into()));
        if c1 != c2 || b1 != b2 {
            assert!(w1 != w2, "VERIF: two addresses share a content info word");
        }
        kani::cover!(c1 == (1 << 20) - 1 && b1 == 4094, "last cluster, last blob");
    }
}

// -- one inductive step of the open cluster ------------------------------------------------------
fn cluster_step(len: usize, canary: bool) {
    let compressed: bool = kani::any();
    let index: u32 = kani::any();
    kani::assume(index < (1 << 20));
    let mut cluster = ClusterCreator::new(index.into(), compressed);
    assert!(!cluster.is_full(Size::new(kani::any())), "VERIF: a fresh cluster is full");
    assert!(cluster.is_empty());
    // arbitrary valid pre-state: `len` blobs, cumulative offsets (only the last two matter)
    let last: u64 = kani::any();
    let before_last: u64 = kani::any();
    kani::assume(before_last <= last && last <= (1u64 << 60));
    if len > 0 {
        if is_symbolic() && len > 16 {
            // arbitrary (unconstrained) earlier offsets: uninitialised memory is nondeterministic
            let mut v: Vec<u64> = Vec::with_capacity(len + 1);
            unsafe { v.set_len(len) };
            cluster.offsets = v;
        } else {
            cluster.offsets = vec![0u64; len];
        }
        cluster.offsets[len - 1] = last;
        if len > 1 {
            cluster.offsets[len - 2] = before_last;
        }
    }
    let old_size = if len > 0 { last } else { 0 };
    assert!(cluster.data_size().into_u64() == old_size, "VERIF: data_size is the last offset");
    let size: u64 = kani::any();
    kani::assume(size <= (1u64 << 40));
    let full = cluster.is_full(Size::new(size));
    if len >= 4095 {
        assert!(full, "VERIF: a cluster with 4095 blobs must be full");
    }
    if compressed && len > 0 && old_size + size > 4 * 1024 * 1024 {
        assert!(full, "VERIF: compressed cluster over 4MiB must be full");
    }
    if len < 4095 && !(compressed && len > 0 && old_size + size > 4 * 1024 * 1024) {
        assert!(!full, "VERIF: cluster reported full too early");
    }
    if !full {
        match cluster.add_content(Box::new(FakeInput { size })) {
            Ok(info) => {
                assert!(info.cluster_index.into_u32() == index, "VERIF: wrong cluster index");
                assert!(info.blob_index.into_u16() as usize == len, "VERIF: wrong blob index");
                // the address survives the 20/12 packing
                let w = ser_content_info(&info);
                let (pc, pb) = parse_content_info(&w);
                assert!(pc == index && pb as usize == len, "VERIF: blob index does not fit its 12 bits");
                assert!(cluster.offsets.len() == len + 1);
                assert!(cluster.offsets[len] == old_size + size, "VERIF: offset is not cumulative");
                assert!(cluster.data_size().into_u64() == old_size + size);
                assert!(!cluster.is_empty());
                // blob count must fit the u16 of the cluster header and the tail the sized offset
                assert!(cluster.offsets.len() <= 0xFFF, "VERIF: more than 4095 blobs");
            }
            Err(e) => {
                forget(e);
                assert!(false, "VERIF: add_content failed");
            }
        }
    }
    kani::cover!(len >= 4095 || (!full && size > 0), "content added");
    kani::cover!(len < 4095 || full, "full at 4095");
    kani::cover!(len == 0 || len >= 4095 || (compressed && full), "compressed cluster full by size");
    if canary {
        assert!(false, "CANARY");
    }
    std::mem::forget(cluster);
}

macro_rules! step_inst {
    ($name:ident, $len:expr, $canary:expr) => {
        vharness! {
            #[kani::unwind(6)]
            fn $name() { cluster_step($len, $canary) }
        }
    };
}
step_inst!(c01_cluster_step_0, 0, false);
step_inst!(c01_cluster_step_1, 1, false);
step_inst!(c01_cluster_step_2, 2, false);
step_inst!(c01_cluster_step_4094, 4094, false);
step_inst!(c01_cluster_step_4095, 4095, false);
step_inst!(c01_canary_cluster_step, 2, true);

// -- tail width: no truncation (monitor) ---------------------------------------------------------
fn any_compression() -> Compression {
    let k: u8 = kani::any();
    match k % 2 {
        0 => Compression::None,
        _ => Compression::zstd(),
    }
}

fn mk_cluster(n: usize, offsets: &[u64], compressed: bool) -> ClusterCreator {
    let mut cluster = ClusterCreator::new(0u32.into(), compressed);
    let mut v = Vec::with_capacity(n);
    let mut i = 0;
    while i < n {
        v.push(offsets[i]);
        i += 1;
    }
    cluster.offsets = v;
    cluster
}

fn sym_offsets<const K: usize>(n: usize) -> [u64; K] {
    let offs: [u64; K] = kani::any();
    let mut i = 1;
    while i < n {
        kani::assume(offs[i - 1] <= offs[i]);
        i += 1;
    }
    offs
}

/// Natively (replay): write the real bytes and read them back with the reader's parser.
fn native_tail_roundtrip(compression: Compression, cluster: &ClusterCreator, raw: u64) {
    let mut ser = Serializer::new(BlockCheck::None);
    serialize_cluster_tail(compression, cluster, Size::new(raw), &mut ser).unwrap();
    let (buf, _) = ser.close();
    let mut parser = SliceParser::new(Cow::Borrowed(&buf[..]), Offset::zero());
    let header = ClusterHeader::parse(&mut parser).unwrap();
    let raw_back = parser.read_usized(header.offset_size).unwrap();
    let data_back = parser.read_usized(header.offset_size).unwrap();
    assert!(raw_back == raw, "VERIF: stored (raw) size read back differs from the one written");
    assert!(
        data_back == cluster.data_size().into_u64(),
        "VERIF: data size read back differs from the one written"
    );
    for o in &cluster.offsets[..cluster.offsets.len() - 1] {
        let back = parser.read_usized(header.offset_size).unwrap();
        assert!(back == *o, "VERIF: blob offset read back differs from the one written");
    }
}

fn tail_width<const K: usize>(n: usize, canary: bool) {
    let compression = any_compression();
    let compressed = !matches!(compression, Compression::None);
    let offs: [u64; K] = sym_offsets::<K>(n);
    let cluster = mk_cluster(n, &offs, compressed);
    let data_size = offs[n - 1];
    let raw: u64 = kani::any();
    if !compressed {
        // an uncompressed cluster stores its data verbatim
        kani::assume(raw == data_size);
    }
    // a codec may expand its input: the stored size is *not* bounded by the data size
    if is_symbolic() {
        let mut ser = Serializer::new(BlockCheck::None);
        match serialize_cluster_tail(compression, &cluster, Size::new(raw), &mut ser) {
            Ok(()) => {}
            Err(e) => {
                forget(e);
                assert!(false, "VERIF: serialize_cluster_tail failed");
            }
        }
        assert!(unsafe { MON_WRITES } == n + 1, "VERIF: tail writes raw size, data size and n-1 offsets");
        std::mem::forget(ser);
    } else {
        native_tail_roundtrip(compression, &cluster, raw);
    }
    kani::cover!(compressed && raw > data_size && data_size > 0, "codec expanded the data");
    kani::cover!(!compressed && data_size >= 256, "two byte offsets");
    if canary {
        assert!(false, "CANARY");
    }
    std::mem::forget(cluster);
}

macro_rules! tail_width_inst {
    ($name:ident, $k:expr, $canary:expr) => {
        vharness! {
            #[kani::unwind(12)]
            #[kani::stub(crate::bases::Serializer::write_usized, crate::verif_common::mon_write_usized)]
            fn $name() { tail_width::<$k>($k, $canary) }
        }
    };
}
tail_width_inst!(c01_tail_width_1, 1, false);
tail_width_inst!(c01_tail_width_2, 2, false);
tail_width_inst!(c01_tail_width_3, 3, false);
tail_width_inst!(c01t_tail_width_4, 4, false);
tail_width_inst!(c01t_tail_width_6, 6, false);
tail_width_inst!(c01_canary_tail_width, 2, true);

// -- tail writer: the bytes the real writer produces == the reference encoding -----------------
fn real_tail(compression: Compression, cluster: &ClusterCreator, raw: u64) -> Option<Vec<u8>> {
    let mut ser = Serializer::new(BlockCheck::None);
    match serialize_cluster_tail(compression, cluster, Size::new(raw), &mut ser) {
        Ok(()) => {}
        Err(e) => {
            forget(e);
            return None;
        }
    }
    let (buf, _) = ser.close();
    Some(buf)
}

fn tail_writer<const K: usize>(w: usize, canary: bool) {
    // case split on the compression kind keeps the discriminant concrete in each call
    if kani::any() {
        tail_writer_k::<K>(w, canary, Compression::None, 0)
    } else {
        tail_writer_k::<K>(w, canary, Compression::zstd(), 3)
    }
}

fn tail_writer_k<const K: usize>(w: usize, canary: bool, compression: Compression, comp_byte: u8) {
    unsafe {
        NB_WIDTH = w;
    }
    let n = K;
    let compressed = !matches!(compression, Compression::None);
    let offs: [u64; K] = sym_offsets::<K>(n);
    let data_size = offs[n - 1];
    let raw: u64 = kani::any();
    if !compressed {
        kani::assume(raw == data_size);
    }
    // Under this assumption the constant stub equals what the real needed_bytes returns for the
    // writer's argument (c14_needed_bytes characterises needed_bytes; c01_tail_width is the
    // obligation that the argument the writer passes covers every field).
    let widest = if raw > data_size { raw } else { data_size };
    kani::assume(in_width_range(widest, w));
    let cluster = mk_cluster(n, &offs, compressed);
    let buf = match real_tail(compression, &cluster, raw) {
        Some(b) => b,
        None => {
            assert!(false, "VERIF: serialize_cluster_tail failed");
            return;
        }
    };
    let mut expect = [0u8; 60];
    let len = ref_cluster_tail(&mut expect, comp_byte, w, raw, &offs);
    assert!(buf.len() == len, "VERIF: cluster tail length differs from the layout");
    let mut i = 0;
    while i < len {
        assert!(buf[i] == expect[i], "VERIF: cluster tail bytes differ from the layout");
        i += 1;
    }
    kani::cover!(n < 2 || offs[0] < offs[n - 1], "distinct offsets");
    kani::cover!(compressed && raw > data_size, "stored size is the widest field");
    if canary {
        assert!(false, "CANARY");
    }
    std::mem::forget(cluster);
    std::mem::forget(buf);
}

macro_rules! tail_writer_inst {
    ($name:ident, $k:expr, $w:expr, $unw:expr, $canary:expr) => {
        vharness! {
            #[kani::unwind($unw)]
            #[kani::stub(crate::bases::needed_bytes, crate::verif_common::needed_bytes_const)]
            fn $name() { tail_writer::<$k>($w, $canary) }
        }
    };
}
// unwind: the byte comparison loop runs 4 + (n+1)*w times
tail_writer_inst!(c01_tail_writer_w1_n1, 1, 1, 8, false);
tail_writer_inst!(c01_tail_writer_w1_n3, 3, 1, 10, false);
tail_writer_inst!(c01_tail_writer_w2_n2, 2, 2, 12, false);
tail_writer_inst!(c01_tail_writer_w3_n2, 2, 3, 15, false);
tail_writer_inst!(c01_tail_writer_w4_n2, 2, 4, 18, false);
tail_writer_inst!(c01_tail_writer_w8_n2, 2, 8, 30, false);
tail_writer_inst!(c01t_tail_writer_w5_n3, 3, 5, 26, false);
tail_writer_inst!(c01t_tail_writer_w6_n3, 3, 6, 30, false);
tail_writer_inst!(c01t_tail_writer_w7_n3, 3, 7, 34, false);
tail_writer_inst!(c01t_tail_writer_w2_n6, 6, 2, 20, false);
tail_writer_inst!(c01_canary_tail_writer, 2, 2, 12, true);
