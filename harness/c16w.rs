// C16 (routing side) — ClusterWriterProxy::write_cluster: which path a closed cluster takes.
// Injected as a child module of `crate::creator::content_pack::clusterwriter`
// (sees ClusterWriterProxy's private fields and WriteTask).
#![allow(dead_code, unused_imports, unused_variables)]

use super::super::cluster::ClusterCreator;
use super::{ClusterWriterProxy, WriteTask};
use crate::bases::*;
use crate::creator::Compression;
use crate::verif_common::*;
use std::sync::{mpsc, Arc, Condvar, Mutex};

// @h c16_route | ClusterWriterProxy::write_cluster (the real decision and queue accounting; the two channel sends are taps) | pack compression (none / zstd), the `compressed` argument, clusters already queued (below the back-pressure limit) | a cluster goes to the compression workers iff the pack compresses and the cluster was opened as compressed; everything else goes straight to the writer (raw path, which writes Compression::None); exactly one send; the queue counter grows by one on the worker path only | one cluster; queue below its limit (no wait); proxy built by struct literal without threads

/// S-send: which channel a cluster was sent to (1 = compression workers, 2 = writer thread)
pub(crate) static mut SENDS: [u8; 4] = [0; 4];
pub(crate) static mut SEND_N: usize = 0;

fn record(path: u8) {
    unsafe {
        assert!(SEND_N < 4, "VERIF: more sends than the harness expects");
        SENDS[SEND_N] = path;
        SEND_N += 1;
    }
}

pub(crate) fn stub_spmc_send<T: Send>(_s: &mut spmc::Sender<T>, t: T) -> std::result::Result<(), spmc::SendError<T>> {
    record(1);
    std::mem::forget(t);
    Ok(())
}

pub(crate) fn stub_mpsc_send<T>(_s: &mpsc::Sender<T>, t: T) -> std::result::Result<(), mpsc::SendError<T>> {
    record(2);
    std::mem::forget(t);
    Ok(())
}

/// The receiving ends (kept alive; natively they are how a replay observes the routing).
pub(crate) struct Taps {
    pub(crate) dispatch_rx: spmc::Receiver<ClusterCreator>,
    pub(crate) fusion_rx: mpsc::Receiver<WriteTask>,
}

impl Taps {
    /// drains what was sent since the last call: (number to the workers, number to the writer)
    pub(crate) fn sent(&self) -> (usize, usize) {
        if is_symbolic() {
            let mut d = 0;
            let mut f = 0;
            let mut i = 0;
            while i < unsafe { SEND_N } {
                if unsafe { SENDS[i] } == 1 { d += 1 } else { f += 1 }
                i += 1;
            }
            unsafe { SEND_N = 0 };
            (d, f)
        } else {
            let mut d = 0;
            let mut f = 0;
            while let Ok(c) = self.dispatch_rx.try_recv() {
                std::mem::forget(c);
                d += 1;
            }
            while let Ok(c) = self.fusion_rx.try_recv() {
                std::mem::forget(c);
                f += 1;
            }
            (d, f)
        }
    }
}

/// A proxy without threads: never joined, always forgotten.
pub(crate) fn threadless_proxy<O: OutStream + 'static>(
    compression: Compression,
    queued: usize,
    max_queue: usize,
) -> (ClusterWriterProxy<O>, Taps) {
    let (dispatch_tx, dispatch_rx) = spmc::channel();
    let (fusion_tx, fusion_rx) = mpsc::channel();
    unsafe { SEND_N = 0 };
    let proxy = ClusterWriterProxy {
        worker_threads: Vec::new(),
        thread_handle: unsafe { std::mem::transmute_copy(&[1usize; 16]) },
        dispatch_tx,
        fusion_tx,
        nb_cluster_in_queue: Arc::new((Mutex::new(queued), Condvar::new())),
        max_queue_size: max_queue,
        compression,
    };
    (proxy, Taps { dispatch_rx, fusion_rx })
}

pub(crate) fn queued<O: OutStream + 'static>(p: &ClusterWriterProxy<O>) -> usize {
    *p.nb_cluster_in_queue.0.lock().unwrap()
}

pub(crate) fn pick_compression(compressing: bool) -> Compression {
    if compressing {
        Compression::default()
    } else {
        Compression::None
    }
}

vharness! {
    #[kani::unwind(6)]
    #[kani::stub(spmc::Sender::send, stub_spmc_send)]
    #[kani::stub(std::sync::mpsc::Sender::send, stub_mpsc_send)]
    fn c16_route() {
        let compressing: bool = kani::any();
        let flag: bool = kani::any();
        let q: usize = kani::any();
        kani::assume(q < 4);
        let (proxy, taps) = threadless_proxy::<std::io::Cursor<Vec<u8>>>(pick_compression(compressing), q, 4);
        // never dropped, not even when a failing assertion unwinds in a native replay
        let (mut proxy, taps) = (std::mem::ManuallyDrop::new(proxy), std::mem::ManuallyDrop::new(taps));
        let cluster = ClusterCreator::new(ClusterIdx::from(3u32), flag);
        match proxy.write_cluster(cluster, flag) {
            Ok(()) => {}
            Err(e) => { forget(e); assert!(false, "VERIF: write_cluster failed"); }
        }
        let (d, f) = taps.sent();
        assert!(d + f == 1, "VERIF: a closed cluster is sent exactly once");
        if compressing && flag {
            assert!(d == 1, "VERIF: a cluster opened as compressed in a compressing pack is not sent to the compression workers");
            assert!(queued(&proxy) == q + 1, "VERIF: queue counter");
        } else {
            assert!(f == 1, "VERIF: a raw cluster (or any cluster of a pack without compression) is sent to the compression workers");
            assert!(queued(&proxy) == q, "VERIF: queue counter changed on the raw path");
        }
        kani::cover!(compressing && flag, "worker path");
        kani::cover!(!compressing && flag, "forced raw");
    }
}
