#!/bin/sh
# usage: confirm_seed.sh <seed dir> : confirms in the scratch worktree /tmp/wt-clean that the change applies,
# the suite passes with it, the demonstration fails with it and passes without it. Prints one summary line.
d=$1; w=/tmp/wt-clean
cd $w || exit 9
git checkout -q -- . ; rm -f tests/demo.rs
git apply "$d/patch.diff" || { echo "CONFIRM $(basename $d): patch does not apply"; exit 1; }
suite=$(CARGO_NET_OFFLINE=true cargo test --offline 2>&1 | grep -E "^test result" | tr '\n' ' ')
cp "$d/demo.rs" tests/demo.rs
with=$(CARGO_NET_OFFLINE=true cargo test --offline --test demo 2>&1 | grep -E "^test result|error: could not compile" | tr '\n' ' ')
git checkout -q -- .
without=$(CARGO_NET_OFFLINE=true cargo test --offline --test demo 2>&1 | grep -E "^test result|error: could not compile" | tr '\n' ' ')
rm -f tests/demo.rs
echo "CONFIRM $(basename $d): suite_with_change=[$suite] demo_with_change=[$with] demo_without=[$without]"
