#!/usr/bin/env python3
"""Developer helper: create/refresh an injected scratch copy at /var/tmp/jvdev (not used by checks).
usage: devscratch.py            -> (re)create sources, keep target dirs
       then: cd /var/tmp/jvdev/src && cargo kani --lib -Z stubbing -Z unstable-options --target-dir ../tgt-dev --harness X
"""
import importlib.machinery, importlib.util, json, os, shutil, sys
V = os.path.dirname(os.path.dirname(os.path.abspath(__file__)))
loader = importlib.machinery.SourceFileLoader("check", os.path.join(V, "bin/check"))
spec = importlib.util.spec_from_loader("check", loader)
chk = importlib.util.module_from_spec(spec); loader.exec_module(chk)
s = chk.Scratch(keep=True)
s.dir = "/var/tmp/jvdev"; s.src = s.dir + "/src"; s.hdir = s.src + "/src/verif_h"
plan = json.load(open(chk.PLAN))
tg = {}
if os.path.isdir(s.src):
    shutil.rmtree(s.src)
os.makedirs(s.dir, exist_ok=True)
# Scratch.create removes the whole dir: protect target dirs
keep = [d for d in os.listdir(s.dir) if d.startswith("tgt")]
for d in keep: os.rename(os.path.join(s.dir, d), "/var/tmp/jvdev-keep-" + d)
print(s.create(plan))
for d in keep: os.rename("/var/tmp/jvdev-keep-" + d, os.path.join(s.dir, d))
print("scratch at", s.src)
