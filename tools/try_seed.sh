#!/bin/sh
# usage: try_seed.sh <seed dir with patch.diff> <PROPERTY-ID>...   (applies to /repo, runs the quick checks, reverts)
d=$1; shift
git -C /repo status --short | grep -q . && { echo "/repo not clean"; exit 9; }
git -C /repo apply "$d/patch.diff" || { echo "patch does not apply"; exit 9; }
for p in "$@"; do
  echo "=== $p on $(basename $d)"
  /verif/bin/check $p --tier quick 2>&1 | grep -E "VIOLATION|KNOWN|INCONCLUSIVE|^OK|FAILED" | cut -c1-260 | head -12
  echo "exit=$?"
done
git -C /repo checkout -- .
git -C /repo status --short
