#!/usr/bin/env python3
"""Generates /verif/MANIFEST.json from harness/plan.json + the tables below and validates it."""
import json, os, sys
V = os.path.dirname(os.path.dirname(os.path.abspath(__file__)))
plan = json.load(open(os.path.join(V, "harness/plan.json")))

NA = {
 "C11": "solver-based harness written (harness/c11.rs: Container built by struct literal, locator that finds nothing, Container::get_pack driven with a symbolic pack id) but CBMC does not return within 25 minutes (the MISSING branch clones a PackInfo, i.e. a SmallVec; the FOUND branch is ContentPack::new); the harness is not registered and no claim is made (DESIGN.md section 5)",
 "C07": "quantifies over thread interleavings of readers with decompression workers: Kani/CBMC execute one thread, rayon cannot even be compiled by Kani 0.68 (catch_unwind ICE), the sequential writer loop decode_to_end did not terminate under CBMC in 15 min; nothing that decides the property can be encoded (DESIGN.md section 5)",
 "C08": "quantifies over completion orders of compression worker threads; ClusterWriterProxy::new spawns the threads at construction and Kani has no thread model (DESIGN.md section 5)",
 "C09": "quantifies over crash points of real file-system writes and rename atomicity (OS semantics behind FFI); no function whose symbolic execution says anything about a process dying mid-write (DESIGN.md section 5)",
 "C16": "decision lives in methods of ContentPackCreator which cannot be constructed without spawning threads; detect branch is floating point; dedup adder is HashMap<blake3::Hash,_> (DESIGN.md section 5)",
}
TEXT = {
 "C15": ("Bounded model checking of the real deferred-value mechanism around the position assignment: the shared cell (Vow::fulfil / Bound::get / Word::from(Bound)) with handles taken before, between and after two assignments of symbolic positions; the real EntryStore::add_entry with real BasicEntry values (handle == the stored entry's own cell, insertion position, not shared); a reference column (schema::Property::process + finalize + serialize_entry, unsigned and signed) and an index offset bound to an entry position: the width chosen and the value written are those of the position assigned last, never of the value the cell had when the reference was made. The position assignment itself inside EntryStore::finalize is rayon code Kani cannot compile: its effect (set_idx with the final position before Schema::process) is the stated assumption.",
         "4 C15", "Kani/CBMC; kernel level: two cells, two assignments each; EntryStore::finalize (rayon sort + par_iter_mut position assignment) and Schema::finalize (HashMap) are outside, so a change in the order of sort / assignment / column sizing inside finalize is not detected; single thread (atomic orderings not exercised)"),
 "C10": ("Bounded model checking of the real container writer and of the pieces the one-file/many-files equivalence rests on: the real ContainerPackCreator (from_file, add_pack, into_file + InContainerFile write/seek/close, finalize) run inside Kani on a memory recipient with symbolic pack bytes and free data: the declared size equals the bytes written, the tail mirrors the header block, every locator (uuid, size, offset) delimits exactly the bytes of its pack and positions inside a contained pack are relative to its start; the real ChainedLocator over three locators with symbolic answers (first hit wins, errors propagate); Skip offset arithmetic; the real blind open's control flow for the header-at-start branch and the real ContainerPackHeader/PackLocator readers (shared with C06/C14).",
         "4 C10", "Kani/CBMC; 2 packs, 5 pack bytes; Uuid::new_v4 fixed; Serializer::close without CRC; Container::new / get_pack (HashMap, file locators), the order in which Container builds its locator chain, the mirrored-tail branch of the blind open and the file-system locator are outside: no claim is made about them"),
 "C04": ("Bounded model checking of which bytes are hashed and compared: one inductive step of the real ManifestCheckStream from any state (masked exactly on bytes 38..256 of each pack-info block, nothing else altered, in step with its source), its set-up from the real PackOffsetsIter, the real CheckInfo::{new_blake3,check} with blake3 replaced by a tap + stand-in digest, and the real Pack::check of DirectoryPack, ManifestPack and ContentPack on pack states built over a symbolic body: the stream fed to the hash is exactly [0, check_info_pos), a pristine pack verifies, any single altered byte of the body or of the stored digest does not. A check that hashes a shorter range or compares nothing passes the test suite and fails here.",
         "4 C04", "Kani/CBMC; blake3 is abstracted (tap + additive digest, collision resistance assumed); pack states are built by struct literal; O-crc accepts; the writers' side (hash computed after the header rewrite), ContentPackCreator (threads) and Container::check (HashMap) are outside"),
 "C12": ("Bounded model checking of the pack-info block a location rewrite replaces: the real PackInfo::serialize writes 38 location-independent bytes then the length-prefixed location zero-padded to 252 bytes for locations of 0..213 bytes; the real PackInfo::parse recovers every field and consumes exactly 252 bytes whatever the location (2-byte locations range over all byte pairs: multi-byte UTF-8 accepted, invalid UTF-8 rejected); the real manifest check stream masks exactly bytes 38..256 of each block (shared with C04). Together: two manifests that differ only by a rewritten location feed identical bytes to the global check.",
         "4 C12", "Kani/CBMC; tools::set_location itself (file I/O + HashMap) is outside: the claim is about the block codec and the mask only, and says so; its offset defect was found by reading, not by a check"),
 "C03": ("Bounded model checking of the real lookup (RangeTrait::find, both branches) over every sorted sequence of up to 6 (thorough 9) keys, every window size and offset and every probe; of the reader's byte-wise order on arrays split between inline part and store (Array::cmp/ArrayIter) against the lexicographic order of the whole value; of the reader's and writer's integer orders; and of the writer's order on arrays (prefix, value id, size) against the byte order, under exactly the id-assignment guarantee of the value stores, with all bytes, lengths, inline lengths and ids symbolic.",
         "4 C03", "Kani/CBMC; the two rayon sorts (entries, value-store ids) are assumptions: their post-conditions are taken as preconditions and shown sufficient; HashMap-based PropertyCompare/AnyBuilder and SmallVec probes are outside"),
 "C06": ("Bounded model checking, under debug and release semantics, of the code that runs before or without a checksum: assert_slice_crc on buffers shorter than a checksum, the real blind open end to end on every memory file shorter than one block, the blind open's own arithmetic and control flow for the header-at-start branch with the file length and the declared pack size fully symbolic (u64), PackHeader::parse on 60 arbitrary bytes, and region arithmetic under the callers' precondition. Every panic, overflow or out-of-bounds index on these paths is a failed check; counterexamples are replayed natively in the matching profile. Narrow by design: parsers that only see CRC-verified bytes are outside the property's scope.",
         "4 C06", "Kani/CBMC models debug/release semantics (debug assertions, overflow checks), not optimiser behaviour; the two header parses of the glue harness are replaced by nondeterministic results; FileSource/mmap (FFI), the mirrored-tail branch of the blind open and the background decoder (rayon: abort on decoder error, endless wait on short output - both real, see DESIGN.md) are outside"),
 "C05": ("Bounded model checking of (1) the real table-driven CRC code against a bitwise CRC-32C reference over all blocks of 1-2 (thorough: 4) data bytes, (2) the real writer (Serializer::close / write_serializer) producing exactly that checksum in big endian after the data, (3) single-byte alterations never accepted, and (4) every block-reading entry point of Reader / ArrayReader / ValueStore run with a checksum oracle that records the range it is asked about: Ok only if exactly [offset, offset+size+4) was verified and accepted, rejection surfaces as Corrupted. Removing a verification or checking the wrong range changes no test outcome but fails (4); a parameter change of the CRC fails (1)/(2).",
         "4 C05", "Kani/CBMC; memory source stands for the file source; block lengths bounded as stated; oracle stub is used only in the site harnesses"),
 "C14": ("Differential bounded model checking against a reference codec written in the harness from the pinned layout: the real primitive writers/readers (u8..u64, usized/isized of every width, data) equal little-endian reference encode/decode; every header structure (PackHeader with its version gate, content/directory/manifest/container headers, PackLocator, SizedOffset, CheckInfo, plus cluster tail, index tail, value-store tails and property definitions in C01/C02) is checked in both directions (writer field sequence == layout, reader(reference bytes) == fields) with all field values symbolic, so a change applied symmetrically to writer and reader is caught.",
         "4 C14", "Kani/CBMC; the reference encodings are part of the trusted base (a few lines each, transcribed from the pinned code and spec); reference corpus of old files is outside"),
 "C02": ("Bounded model checking of the real per-column machinery on both sides: column width selection (PropertySize/ValueCounter/needed_bytes) under a truncation monitor on the real entry serialiser with every value symbolic; the sequence of primitive writes of the real serialize_entry and layout::Property::serialize compared with the pinned layout for all widths at once (ghost log); the real reader builders (IntProperty, SignedProperty, ContentProperty, ArrayProperty, VariantIdProperty, AnyProperty) and RawProperty::parse against an independent little-endian reference decode on symbolic entry bytes; real value stores (creator tail/data layout from a constructed finalized state, reader parse + get_data from reference bytes); index window arithmetic; variant padding; tail size representability. The solver decides every value inside each stated bound, which is where width boundaries, sign handling and nibble packing go wrong.",
         "4 C02", "Kani/CBMC; per-column and per-property kernels: whole-schema assembly (Schema::finalize, Layout::parse, ValueTransformer: HashMap) and the rayon sorts are outside and enter as stated invariants; primitive writes are abstracted by a ghost log (their byte-level behaviour is C14's obligation); Serializer::close without CRC and accepting CRC oracle (C05 covers CRC); from_utf8 accepted for concrete ASCII names"),
 "C01": ("Bounded model checking of the real cluster bookkeeping and cluster tail code on both sides: one inductive step of ClusterCreator from any valid state (blob counts 0,1,2,4094,4095), ContentInfo 20/12 packing, a truncation monitor over the real serialize_cluster_tail with every offset and the stored size symbolic, writer bytes == an independent reference encoding and reader(reference encoding) == fields for each width, and blob extraction from a cluster placed at a non-zero position with symbolic data and offsets. All values inside each bound are decided by the solver; the rare inputs (width boundaries, codec expansion, 4095th blob) are exactly what it finds.",
         "4 C01", "Kani/CBMC; kernel harnesses glued by stated assumptions: codecs are inverse pairs returning any stored size, worker threads deliver bytes unaltered, needed_bytes replaced by a constant width under an exact range assumption (needed_bytes itself proved in C14), CRC oracle accepts (C05 covers CRC); compression FFI, threads, file sources, LruCache path outside"),
 "C13": ("Bounded model checking of the real view types (ByteRegion, ByteSlice, ByteStream, Reader, Region) over a 9-byte memory source with every offset, size and read length symbolic: CBMC decides all values inside the bound (nested cuts to depth 3, three reads, all parser widths). This is the right level because the property is pure offset arithmetic over all (offset,size) combinations, which a solver covers exhaustively inside the bound and tests only sample.",
         "4 C13", "Kani MIR->goto translation, CBMC 6.11/CaDiCaL; memory source stands for all sources (file, mmap, background decoder outside the claim); std::fmt::format and Backtrace::capture stubbed; unwinding assertions on"),
}
checks = []
for pid in sorted(plan["properties"]):
    text, ref, note = TEXT[pid]
    checks.append({
        "property_id": pid,
        "quick_cmd": "bin/check %s --tier quick" % pid,
        "thorough_cmd": "bin/check %s --tier thorough" % pid,
        "evidence_file": "/verif/evidence/%s.json" % pid,
        "replay_cmd_template": "bin/check --replay {path}",
        "engine": "kani-cbmc",
        "level_claimed": {"category": "model_checking", "text": text, "design_ref": ref},
        "level_note": note,
        "technique": "solver-based bounded model checking of the real Rust code (Kani 0.68 -> CBMC 6.11, CaDiCaL) over symbolic inputs, counterexamples replayed natively",
    })
na = []
allp = [json.loads(l)["id"] for l in open(os.path.join(V, "properties.jsonl"))]
for pid in allp:
    if pid in plan["properties"]:
        continue
    na.append({"property_id": pid, "reason": NA.get(pid, "check not built yet in this round: harnesses under construction (see DESIGN.md section 4 for the plan)")})
m = {
 "version": 1,
 "setup_cmd": "bin/setup",
 "hooks": {
   "guard": "kani",
   "enable": "no hook is committed to /repo: each check copies /repo's working tree to a scratch directory and appends `#[cfg(kani)] #[path=...] mod verif_*;` lines (harness/plan.json) to module files of the copy; cfg(kani) is set by cargo-kani itself",
   "baseline_off_cmd": "cd /repo && cargo test --workspace --no-fail-fast --offline",
   "source_commits": [],
   "add_only": True,
 },
 "engines": [{"name": "kani-cbmc", "path": "/verif/bin/check", "serves_properties": sorted(plan["properties"]),
              "kind_free_text": "Kani 0.68 proof harnesses (harness/*.rs) compiled with the current /repo sources, decided by CBMC 6.11 + CaDiCaL; runner parses per-check results, requires cover witnesses and canaries, replays counterexamples natively with cargo kani playback"}],
 "checks": checks,
 "not_applicable": na,
 "notes": "Technique family: solver-based checking of the real code. Exit 2 of a check means inconclusive (timeout, OOM, vacuous harness, counterexample not reproduced natively) and is never a pass. Known findings: /verif/known_findings.txt.",
}
json.dump(m, open(os.path.join(V, "MANIFEST.json"), "w"), indent=1)
try:
    import jsonschema
    jsonschema.validate(m, json.load(open("/root/.vp/MANIFEST.schema.json")))
    print("MANIFEST.json valid;", len(checks), "checks,", len(na), "not applicable")
except ImportError:
    print("jsonschema not available; not validated")
