#!/usr/bin/env python3
"""Copies confirmed seeded changes from /tmp/seeds/<id>-<n>/ to /verif/seeded/<id>-<n>/ and writes meta.json
(the agent's description + what was run here: native confirmation and the outcome of the checks)."""
import json, os, re, shutil, sys
V = "/verif"
def parse_confirm(path):
    out = {}
    if not os.path.isfile(path): return out
    for l in open(path):
        m = re.match(r"CONFIRM (\S+): (.*)", l)
        if m: out[m.group(1)] = m.group(2).strip()
    return out
def parse_results(path):
    out = {}
    if not os.path.isfile(path): return out
    cur = None
    for l in open(path):
        m = re.match(r"=== (\S+) on (\S+)", l)
        if m:
            cur = (m.group(2), m.group(1)); out.setdefault(cur, []); continue
        if cur and re.search(r"VIOLATION|^OK property|INCONCLUSIVE property|FAILED:", l):
            out[cur].append(l.strip()[:300])
    return out
confirm = {}
for f in ("/tmp/seeds/confirm.log", "/tmp/seeds/results2.log"):
    confirm.update(parse_confirm(f))
results = {}
for f in ("/tmp/seeds/results_r1.log", "/tmp/seeds/results_r2.log", "/tmp/seeds/results_r3.log", "/tmp/seeds/results_rerun1.log", "/tmp/seeds/results_rerun2.log", "/tmp/seeds/results_rerun3.log"):
    for k, v in parse_results(f).items():
        results[k] = v   # later logs override
rows = []
for d in sorted(os.listdir("/tmp/seeds")):
    m = re.match(r"(C\d\d)-(\d+)$", d)
    if not m: continue
    src = os.path.join("/tmp/seeds", d)
    if d not in confirm: continue
    c = confirm[d]
    # an empty demo_with_change means the test binary died without a summary line (process abort)
    ok = (re.search(r"demo_with_change=\[test result: FAILED", c) or re.search(r"demo_with_change=\[\s*\]", c)) \
        and re.search(r"demo_without=\[test result: ok", c) \
        and not re.search(r"suite_with_change=\[[^\]]*FAILED", c) and re.search(r"suite_with_change=\[test result: ok", c)
    if not ok:
        print("NOT CONFIRMED", d, c[:200]); continue
    dst = os.path.join(V, "seeded", d)
    os.makedirs(dst, exist_ok=True)
    for f in ("patch.diff", "demo.rs"):
        shutil.copy(os.path.join(src, f), os.path.join(dst, f))
    try:
        agent = json.load(open(os.path.join(src, "meta.json")))
    except Exception:
        agent = {}
    checks = {}
    verdict = "missed"
    for (seed, prop), lines in results.items():
        if seed != d: continue
        checks[prop] = lines
        if any("VIOLATION" in l for l in lines): verdict = "caught"
        elif verdict != "caught" and any("INCONCLUSIVE property" in l for l in lines): verdict = "inconclusive (exit 2, not a pass, not a reported violation)"
    caught_by = sorted(set(re.search(r"replays/\S+?-(c\d\d\w+?)-(dev|rel)\.json", l).group(1)
                           for ls in checks.values() for l in ls if "VIOLATION" in l and re.search(r"replays/\S+?-(c\d\d\w+?)-(dev|rel)\.json", l)))
    meta = {
        "property": m.group(1),
        "summary": agent.get("summary"),
        "needs": agent.get("needs"),
        "produced_by": "independent sub-agent given only the property text and a scratch worktree",
        "confirmed_here": {"in": "scratch worktree of /repo under /tmp (removed afterwards)",
                           "what": "git apply; cargo test --offline (whole suite) with the change; demo.rs as tests/demo.rs with the change (must fail) and without (must pass)",
                           "result": c},
        "checks_run": {p: l for p, l in checks.items()},
        "verdict": verdict,
        "caught_by": caught_by,
    }
    json.dump(meta, open(os.path.join(dst, "meta.json"), "w"), indent=1)
    rows.append((d, meta["property"], (agent.get("summary") or "")[:150].replace("\n", " ").replace("|", "/"), verdict, ", ".join(caught_by)))
print("| seed | change | verdict | caught by |")
print("|---|---|---|---|")
for d, p, s, v, c in rows:
    print("| %s | %s | %s | %s |" % (d, s, v, c or "-"))
